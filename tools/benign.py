#!/usr/bin/env python3
"""
Benign changes written by independent sub-agents (a refactoring, and a behaviour change
outside what the property states) live in /verif/benign/<id>/ (patch.diff, demo.py,
README.md, meta.json).  The checks must stay SILENT on them: a VIOLATION here is a false
alarm of the machinery - unless the change turns out not to be benign after all, which is
decided by reading the witness, never by the verdict alone.

    python3 tools/benign.py import <src dir> <id> <Cxx>   # copy, confirm (tests pass, demo passes with and without), run the checks
    python3 tools/benign.py check <dir> [Cxx ...]         # run quick checks against the patched tree
    python3 tools/benign.py matrix [update] [-jN] [filter]  # every benign/<id> against its check list
    python3 tools/benign.py report
"""

import json
import os
import shutil
import sys
from concurrent.futures import ThreadPoolExecutor

sys.path.insert(0, os.path.dirname(os.path.abspath(__file__)))
from seeded import HERE, Tree  # noqa: E402

BENIGN = os.path.join(HERE, "benign")

# which checks drive the code of which source file (the property's own check always runs)
BY_FILE = {
    "src/puresnmp/api/raw.py": ["C04", "C03", "C18", "C14"],
    "src/puresnmp/api/pythonic.py": ["C15", "C16"],
    "src/puresnmp/util.py": ["C02", "C16", "C11"],
    "src/puresnmp/transport.py": ["C13", "C20", "C19"],
    "src/puresnmp/pdu.py": ["C06", "C08", "C20"],
    "src/puresnmp/types.py": ["C17", "C06", "C15"],
    "src/puresnmp/varbind.py": ["C04", "C15"],
    "src/puresnmp/exc.py": ["C08", "C03", "C12"],
    "src/puresnmp/adt.py": ["C05", "C06", "C20"],
    "src/puresnmp/credentials.py": ["C05", "C18", "C11"],
    "src/puresnmp_plugins/security/usm.py": ["C09", "C10", "C12", "C20"],
    "src/puresnmp_plugins/mpm/v3.py": ["C12", "C07", "C14", "C09"],
    "src/puresnmp_plugins/mpm/v2c.py": ["C07", "C05", "C19"],
    "src/puresnmp_plugins/mpm/v1.py": ["C07", "C05", "C08"],
    "src/puresnmp_plugins/auth": ["C09", "C10"],
    "src/puresnmp_plugins/priv": ["C11"],
}


def checks_for(d, prop):
    files = [l[6:].strip() for l in open(os.path.join(d, "patch.diff")) if l.startswith("+++ b/")]
    out = [prop]
    if os.environ.get("BENIGN_ALL"):
        return out + [c for c in ("C%02d" % i for i in range(1, 21)) if c != prop]
    for f in files:
        for k, v in BY_FILE.items():
            if f.startswith(k):
                out += [c for c in v if c not in out]
    return out


def confirm(d):
    patch, demo = os.path.join(d, "patch.diff"), os.path.join(d, "demo.py")
    clean = Tree()
    try:
        rc0, _ = clean.demo(demo)
    finally:
        clean.close()
    t = Tree(patch)
    try:
        if not t.applied:
            return False, "patch does not apply: %s" % t.apply_output[-200:]
        ok, tail = t.tests()
        rc1, out1 = t.demo(demo)
    finally:
        t.close()
    good = rc0 == 0 and ok and rc1 == 0
    return good, "demo on clean tree rc=%d; tests with patch %s (%s); demo with patch rc=%d" % (rc0, "pass" if ok else "FAIL", tail, rc1)


def run_checks(d, props):
    t = Tree(os.path.join(d, "patch.diff"))
    res = {}
    try:
        if not t.applied:
            print("%s: patch does not apply" % os.path.basename(d))
            return res
        for p in props:
            verdict, first = t.check(p, "quick", seed="1")
            res[p] = {"verdict": {"CAUGHT": "ALARM", "MISSED": "SILENT"}.get(verdict, verdict), "first": first}
            print("%-10s %-4s %-12s %s" % (os.path.basename(d), p, res[p]["verdict"], first[:200] if res[p]["verdict"] != "SILENT" else ""), flush=True)
    finally:
        t.close()
    return res


def import_(src, name, prop):
    d = os.path.join(BENIGN, name)
    os.makedirs(d, exist_ok=True)
    for f in ("patch.diff", "demo.py", "README.md"):
        shutil.copy(os.path.join(src, f), os.path.join(d, f))
    good, how = confirm(d)
    meta = {"property": prop, "origin": "independent sub-agent given only the property text and its own worktree; asked for a change that KEEPS the property",
            "claim": open(os.path.join(d, "README.md")).read()[:1500], "confirmed": {"result": "confirmed" if good else "NOT confirmed", "how": how}, "checks": {}}
    print(name, "CONFIRMED" if good else "NOT CONFIRMED", how)
    if good:
        meta["checks"] = run_checks(d, checks_for(d, prop))
    json.dump(meta, open(os.path.join(d, "meta.json"), "w"), indent=1)


def matrix(update=False, jobs=3, only=None):
    names = sorted(n for n in os.listdir(BENIGN) if os.path.exists(os.path.join(BENIGN, n, "meta.json")))
    if only:
        names = [n for n in names if any(n.startswith(o) or n.endswith(o) for o in only)]

    def one(n):
        d = os.path.join(BENIGN, n)
        m = json.load(open(os.path.join(d, "meta.json")))
        todo = [c for c in checks_for(d, m["property"]) if not (os.environ.get("BENIGN_ALL") and m.get("checks", {}).get(c, {}).get("verdict") == "SILENT")]
        res = run_checks(d, todo)
        if update:
            m.setdefault("checks", {}).update(res)
            json.dump(m, open(os.path.join(d, "meta.json"), "w"), indent=1)
        return n, res

    alarms = []
    with ThreadPoolExecutor(max_workers=jobs) as ex:
        for n, res in ex.map(one, names):
            alarms += ["%s/%s" % (n, p) for p, v in res.items() if v["verdict"] != "SILENT"]
    print("%d benign changes, not silent: %r" % (len(names), alarms))
    return 0 if not alarms else 1


def report():
    print("| id | kind | what the change is | checks run (all silent unless noted) |")
    print("|---|---|---|---|")
    for n in sorted(os.listdir(BENIGN)):
        mp = os.path.join(BENIGN, n, "meta.json")
        if not os.path.exists(mp):
            continue
        m = json.load(open(mp))
        first = next((l.strip("# ").strip() for l in m["claim"].splitlines() if l.strip()), "")
        loud = ["%s %s" % (p, v["verdict"].lower()) for p, v in m.get("checks", {}).items() if v["verdict"] != "SILENT"]
        print("| %s | %s | %s | %s%s |" % (n, "refactoring" if n.endswith("a") else "outside the statement", first.replace("|", "/")[:170], " ".join(m.get("checks", {})), ("; **" + ", ".join(loud) + "**") if loud else ""))


def main():
    cmd = sys.argv[1]
    if cmd == "import":
        import_(sys.argv[2], sys.argv[3], sys.argv[4].upper())
    elif cmd == "check":
        d = os.path.abspath(sys.argv[2])
        props = [a.upper() for a in sys.argv[3:]] or checks_for(d, json.load(open(os.path.join(d, "meta.json")))["property"])
        run_checks(d, props)
    elif cmd == "matrix":
        rest = sys.argv[2:]
        jobs = [int(a[2:]) for a in rest if a.startswith("-j")]
        only = [a for a in rest if a != "update" and not a.startswith("-j")]
        sys.exit(matrix("update" in rest, jobs[0] if jobs else 3, only or None))
    elif cmd == "report":
        report()


if __name__ == "__main__":
    main()
