"""
Source mutations used by tools/mutants.py: (property, name, file below src/,
old text (must occur exactly once), new text).  Each one compiles and is a
realistic slip; the quick check of the named property must fire on it.
"""

RAW = "puresnmp/api/raw.py"
UTIL = "puresnmp/util.py"
PDU = "puresnmp/pdu.py"
USM = "puresnmp_plugins/security/usm.py"
V3 = "puresnmp_plugins/mpm/v3.py"
V1 = "puresnmp_plugins/mpm/v1.py"
SEC2 = "puresnmp_plugins/security/v2c.py"
SEC1 = "puresnmp_plugins/security/v1.py"
PY = "puresnmp/api/pythonic.py"
TYPES = "puresnmp/types.py"
TRANSPORT = "puresnmp/transport.py"
HASH = "puresnmp_plugins/auth/hashbase.py"
ADT = "puresnmp/adt.py"
EXC = "puresnmp/exc.py"

MUTANTS = [
    # ---- C04 ------------------------------------------------------------
    ("C04", "multiget count check != -> <", RAW,
     "        if len(output) != len(oids):\n            raise SnmpError(\n                \"Unexpected response. Expected %d varbind, \"",
     "        if len(output) < len(oids):\n            raise SnmpError(\n                \"Unexpected response. Expected %d varbind, \""),
    ("C04", "getnext count check removed", RAW,
     "        if len(response_object.value.varbinds) != len(oids):",
     "        if False:"),
    ("C04", "multiset count check removed", RAW,
     "        if len(output) != len(mappings):",
     "        if False:"),
    ("C04", "bulkget max check off by one", RAW,
     "        if n_retrieved_varbinds > expected_max_varbinds:",
     "        if n_retrieved_varbinds > expected_max_varbinds + 1:"),
    ("C04", "bulkget scalars/listing split off by one", RAW,
     "        repeating_tmp = varbinds[len(scalar_oids) :]",
     "        repeating_tmp = varbinds[len(scalar_oids) + 1 :]"),
    ("C04", "get: NoSuchInstance not detected", RAW,
     "        if isinstance(result[0], (NoSuchObject, NoSuchInstance)):\n            raise NoSuchOID(oid)\n        return result[0]\n\n    async def multiget",
     "        if isinstance(result[0], (NoSuchObject,)):\n            raise NoSuchOID(oid)\n        return result[0]\n\n    async def multiget"),
    ("C04", "multiget values reversed", RAW,
     "        output = [value for _, value in response.value.varbinds]",
     "        output = [value for _, value in reversed(response.value.varbinds)]"),
    ("C04", "bulkget listing stops one early", RAW,
     "            if isinstance(value, EndOfMibView):\n                break\n            repeating_out[oid] = value",
     "            if isinstance(value, EndOfMibView):\n                break\n            if len(repeating_out) >= 3:\n                break\n            repeating_out[oid] = value"),
    # ---- C08 ------------------------------------------------------------
    ("C08", "revert fix 7f3e744 (index beyond list)", PDU,
     "            if 0 < error_index.value <= len(varbinds):",
     "            if error_index.value != 0:"),
    ("C08", "error_index - 1 -> error_index", PDU,
     "                offending_oid = varbinds[error_index.value - 1].oid",
     "                offending_oid = varbinds[min(error_index.value, len(varbinds) - 1)].oid"),
    ("C08", "construct() table shifted by one", EXC,
     "            cls.IDENTIFIER: cls for cls in ErrorResponse.__subclasses__()",
     "            cls.IDENTIFIER + 1: cls for cls in ErrorResponse.__subclasses__()"),
    ("C08", "error status only honoured below 19", PDU,
     "        if error_status.value:\n",
     "        if 0 < error_status.value < 19:\n"),
    ("C08", "generic ErrorResponse loses raw status", EXC,
     "        return ErrorResponse(offending_oid, message, error_status=error_status)",
     "        return ErrorResponse(offending_oid, message)"),
    # ---- C15 ------------------------------------------------------------
    ("C15", "revert fix: bulkget scalars keyed by OID", PY,
     "            str(oid): value.pythonize()\n            for oid, value in raw_output.scalars.items()",
     "            oid: value.pythonize()\n            for oid, value in raw_output.scalars.items()"),
    ("C15", "multiget: pythonize dropped", PY,
     "        pythonized = [value.pythonize() for value in raw_output]",
     "        pythonized = [value for value in raw_output]"),
    ("C15", "multiset: str(oid) removed", PY,
     "            str(oid): value.pythonize() for oid, value in raw_output.items()",
     "            oid: value.pythonize() for oid, value in raw_output.items()"),
    ("C15", "table: row.pop('0') not restored", PY,
     "            pythonized[\"0\"] = index\n            output.append(pythonized)\n        return output\n\n    async def bulktable",
     "            output.append(pythonized)\n        return output\n\n    async def bulktable"),
    ("C15", "walk yields raw varbind", PY,
     "        raw_result = self.client.walk(ObjectIdentifier(oid), errors)\n        async for varbind in raw_result:\n            yield PyVarBind.from_raw(varbind)",
     "        raw_result = self.client.walk(ObjectIdentifier(oid), errors)\n        async for varbind in raw_result:\n            yield PyVarBind(varbind.oid.pythonize(), varbind.value)"),
    ("C15", "get returns raw value for timeticks", PY,
     "        raw_value = await self.client.get(oid_internal)\n        return raw_value.pythonize()",
     "        raw_value = await self.client.get(oid_internal)\n        return raw_value.value"),
    # ---- C17 ------------------------------------------------------------
    ("C17", "revert fix: float product truncation", TYPES,
     "            value = value // timedelta(milliseconds=10)",
     "            value = int(value.total_seconds() * 100)"),
    ("C17", "Counter wrap mask one bit short", TYPES,
     "            value &= 0xFFFFFFFF if value >= 2**32 else value",
     "            value &= 0x7FFFFFFF if value >= 2**32 else value"),
    ("C17", "Counter64 clamp removed", TYPES,
     "            value &= 0xFFFFFFFFFFFFFFFF if value >= 2**64 else value\n            if value <= 0:\n                value = 0",
     "            value &= 0xFFFFFFFFFFFFFFFF if value >= 2**64 else value"),
    ("C17", "pythonize /100.0 -> //100", TYPES,
     "        seconds = self.value / 100.0  # see rfc2578#section-7.1.8",
     "        seconds = self.value // 100  # see rfc2578#section-7.1.8"),
    ("C17", "Gauge decodes signed", TYPES,
     "class Gauge(Integer):\n    \"\"\"\n    SNMP type for gauges.\n    \"\"\"\n\n    SIGNED = False",
     "class Gauge(Integer):\n    \"\"\"\n    SNMP type for gauges.\n    \"\"\"\n\n    SIGNED = True"),
    ("C17", "IpAddress little endian", TYPES,
     "        return numeric.to_bytes(4, \"big\")",
     "        return numeric.to_bytes(4, \"little\")"),
    ("C17", "Counter wraps at >2**32 instead of >=", TYPES,
     "            value &= 0xFFFFFFFF if value >= 2**32 else value",
     "            value &= 0xFFFFFFFF if value > 2**32 else value"),
]
