#!/usr/bin/env python3
"""
Self-validation: apply each listed source mutation to a scratch copy of
/repo (never to /repo itself), run the quick check of the property it is
meant to break with VERIF_REPO pointing at the copy, and report whether the
check fired.  The scratch copy is removed afterwards.

    python3 tools/mutants.py            # all
    python3 tools/mutants.py C04 C07    # only these properties
    python3 tools/mutants.py -k name    # only mutants whose name contains 'name'

A mutant is (property, name, file below src/, old text, new text), or, for
two cooperating sites, (property, name, [(file, old, new), ...], None, None).
'old' must occur exactly once in the file, so a refactoring that moves the code makes the
mutant report STALE instead of silently testing nothing.
"""

import os
import shutil
import subprocess
import sys
import tempfile

HERE = os.path.dirname(os.path.dirname(os.path.abspath(__file__)))
sys.path.insert(0, HERE)
from tools.mutant_table import MUTANTS  # noqa: E402


def run_one(prop, name, relpath, old, new, tier="quick"):
    work = tempfile.mkdtemp(prefix="vf-mut-")
    try:
        shutil.copytree("/repo/src", os.path.join(work, "src"))
        edits = relpath if old is None else [(relpath, old, new)]
        for rel, o, n in edits:
            path = os.path.join(work, "src", rel)
            with open(path) as fh:
                text = fh.read()
            if text.count(o) != 1:
                return "STALE(%d matches of %r)" % (text.count(o), o[:40]), ""
            with open(path, "w") as fh:
                fh.write(text.replace(o, n))
        env = dict(os.environ, VERIF_REPO=work, VERIF_TIER=tier, VERIF_NO_EVIDENCE="1")
        proc = subprocess.run(
            ["/venv/bin/python", "-m", "vf.check", prop],
            cwd=HERE, env=env, stdout=subprocess.PIPE, stderr=subprocess.STDOUT, timeout=1800,
        )
        out = proc.stdout.decode("utf8", "replace")
        if proc.returncode == 1 and "VIOLATION property=%s" % prop in out:
            mech = [l.strip() for l in out.splitlines() if l.strip().startswith("mechanism=")]
            return "CAUGHT", (mech[0][:160] if mech else "")
        if proc.returncode == 2:
            return "INCONCLUSIVE", out[-300:]
        return "MISSED(rc=%d)" % proc.returncode, out[-200:]
    finally:
        shutil.rmtree(work, ignore_errors=True)


def main():
    args = sys.argv[1:]
    key = None
    if "-k" in args:
        i = args.index("-k")
        key = args[i + 1]
        del args[i : i + 2]
    props = {a.upper() for a in args}
    rows = []
    for prop, name, relpath, old, new in MUTANTS:
        if props and prop not in props:
            continue
        if key and key not in name:
            continue
        verdict, info = run_one(prop, name, relpath, old, new)
        rows.append((prop, name, verdict))
        print("%-4s %-44s %s  %s" % (prop, name, verdict, info), flush=True)
    missed = [r for r in rows if r[2] != "CAUGHT"]
    print("%d mutants, %d caught, %d not caught" % (len(rows), len(rows) - len(missed), len(missed)))
    return 1 if missed else 0


if __name__ == "__main__":
    sys.exit(main())
