#!/usr/bin/env python3
"""
Writes the briefs for one round of independent sub-agents (section 9 of DESIGN.md)
to <outdir>/Cxx.txt.  A brief contains ONLY the text of the property (title,
statement, quantifier) plus the delivery rules - nothing from /verif.

    python3 tools/prompts.py <outdir> <round>      # round: a key of ROUNDS below
"""

import json
import os
import sys

HERE = os.path.dirname(os.path.dirname(os.path.abspath(__file__)))

ROUNDS = {
    "12": """  - Change A must be an OPTIMISATION GONE WRONG: a change a maintainer would commit "for speed" or "to save a round trip" - a fast path for the common case, a cache or memo (with a key that is slightly too coarse, or an invalidation that is missing for one event), a precomputed table, an early exit, reuse of a buffer / list / dict / encoded blob between calls, skipping a step "that was already done", batching, comparing cheap proxies (lengths, prefixes, ids, hashes, identity) instead of the full thing. It must be correct for everything ordinary use and the test-suite feed it, and wrong only for inputs or histories that fall off the fast path's silent assumption.
  - Change B must be a HARDENING / CLEAN-UP GONE WRONG: a change a maintainer would commit "to be more robust" or "to tidy up" - extra validation, clamping, normalising or sanitising of values, a broadened or narrowed `except`, a default filled in when something is missing, de-duplication, sorting, stripping, truncating, converting types "to be safe", replacing a hand-written loop by a library call with subtly different semantics (e.g. `dict`/`set` losing order or duplicates, `zip` truncating, `startswith` on tuples vs. strings, `bytes.strip`, `int()` accepting more, `sorted` on OIDs as strings). It must look like an improvement in review, keep ordinary traffic exactly as it is, and break the property only for legitimate-but-uncommon inputs, agents or call shapes that the new code wrongly "repairs", rejects or reorders.
""",
}

TEMPLATE = """You are helping to evaluate a verification harness for the open-source Python library exhuma/puresnmp (a pure-Python asyncio SNMP v1/v2c/v3 client; BER encoding is delegated to the third-party package x690). You have your own scratch git worktree of the library at /tmp/wt/CXX (source under /tmp/wt/CXX/src/puresnmp, tests under /tmp/wt/CXX/tests). Work ONLY inside /tmp/wt/CXX. Never read, list or touch /repo or /verif.

The property under study (this text is all you get about it):

  TITLE: %(title)s

  STATEMENT: %(statement)s

  QUANTIFIER: %(quantifier)s

Task: write source changes to the library that BREAK this property - a realistic defect of the kind that slips through code review - while the library still imports and its existing test-suite still passes. The changes must need something specific to manifest (a particular interleaving, a fault at a particular point, a multi-step sequence of operations, an unusual but in-scope input, or two cooperating sites that each look fine alone), not something ordinary use would expose at once.

What to deliver: TWO independent changes, A and B, of these specific kinds:
%(rules)sAvoid the most obvious one-line slips (dropping a check outright, inverting a comparison on the main path): assume those are already covered. The violation must be a genuine violation of the STATEMENT as written, for inputs inside its QUANTIFIER (re-read both before you settle on a change; behaviour for malformed or out-of-scope inputs does not count unless the statement covers it).

For each change create a directory /tmp/wt/CXX/out/A (resp. /tmp/wt/CXX/out/B) containing:
  - patch.diff : the output of `git -C /tmp/wt/CXX diff -- src` for that change ALONE against the clean checkout (it must apply to a clean checkout with `git apply`). Only files under src/ may change.
  - demo.py    : a small standalone program that drives the library through its PUBLIC API (e.g. puresnmp.Client with a fake `sender=` coroutine that plays the agent, or a real UDP socket on 127.0.0.1 where the property is about the transport or trap listeners) and checks the property's statement. It must exit 0 (printing OK) on the unchanged tree and exit 1 (printing what went wrong) with the change applied. It is run as: `PYTHONPATH=<tree>/src /venv/bin/python demo.py`. Offline, under 60 seconds, standard library plus what /venv already has. It must not depend on the wall clock landing on a particular second.
  - README.md  : 5-10 lines: what the change does, why it looks harmless, exactly what it needs in order to manifest, and which clause of the statement it violates.

Requirements for each change:
  1. The library still imports and the existing test suite passes unchanged:  cd /tmp/wt/CXX && PYTHONPATH=/tmp/wt/CXX/src /venv/bin/python -m pytest -q -p no:cacheprovider   (expect "174 passed"). Do not edit tests.
  2. It is realistic: something that could appear in the project's history with a sensible commit message. 3-40 changed lines. No dead giveaways (no comments saying it is a bug, no checks for magic demo values, no `if os.environ`, no randomness).
  3. A and B use different mechanisms in different places.

Procedure: read the relevant source, design change A, apply it, run the test suite (with PYTHONPATH as above - the interpreter has another copy of the library installed, so PYTHONPATH=/tmp/wt/CXX/src is REQUIRED for the tests and the demo to see your tree), write demo.py and confirm it exits 1; save patch.diff; then `git -C /tmp/wt/CXX checkout -- src` to return to the clean tree, confirm demo.py exits 0 there, and repeat for B. Leave the worktree clean (no modified tracked files) when you are done; the out/ directory is untracked and stays.

Useful facts: python is /venv/bin/python (3.12). `Client(ip, credentials, sender=my_async_sender)` lets a test play the agent: `async def sender(endpoint, packet, timeout=..., retries=...) -> bytes`. Request ids come from `int(time.time())` via puresnmp.util.get_request_id (patch `time.time` before importing puresnmp if you need stable ids). Nothing can be downloaded.

If, while reading, you notice that the UNCHANGED library already violates the statement for some in-scope input, say so at the end of your reply with a minimal reproduction - that is valuable too.

When finished, reply with a short summary: for A and B one line each saying what the change is and what it needs to manifest, plus the exact commands you ran to confirm (tests pass; demo exits 0 without and 1 with the patch).
"""


def main():
    out, rnd = sys.argv[1], sys.argv[2]
    os.makedirs(out, exist_ok=True)
    for line in open(os.path.join(HERE, "properties.jsonl")):
        p = json.loads(line)
        q = p.get("quantifier", {})
        text = TEMPLATE % {
            "title": p["title"],
            "statement": p["statement"],
            "quantifier": q.get("text", "") if isinstance(q, dict) else str(q),
            "rules": ROUNDS[rnd],
        }
        with open(os.path.join(out, p["id"] + ".txt"), "w") as fh:
            fh.write(text.replace("CXX", p["id"]))
    print(len(os.listdir(out)), "briefs in", out)


if __name__ == "__main__":
    main()
