#!/usr/bin/env python3
"""
Seeded changes written by independent sub-agents live in /verif/seeded/<id>/
(patch.diff, demo.py, README.md, meta.json).  This tool confirms them and runs
the checks against them, always in a scratch git worktree of /repo (never in
/repo itself), which is removed afterwards.

    python3 tools/seeded.py confirm <dir>        # tests pass, demo fails with / passes without the patch
    python3 tools/seeded.py check <dir> [Cxx..]  # run quick checks against the patched tree
    python3 tools/seeded.py matrix [thorough] [update] [-jN] [Cxx|-E ...]   # every seeded/<id> against the check of its property (update: rewrite meta.json verdicts)
"""

import json
import os
import shutil
import subprocess
import sys
import tempfile

HERE = os.path.dirname(os.path.dirname(os.path.abspath(__file__)))
SEEDED = os.path.join(HERE, "seeded")
PY = "/venv/bin/python"


class Tree:
    def __init__(self, patch=None):
        self.dir = tempfile.mkdtemp(prefix="vf-seed-")
        # a unique basename: git derives the worktree's administrative name from it, and
        # several of these are created in parallel
        self.wt = os.path.join(self.dir, "wt-" + os.path.basename(self.dir))
        for attempt in range(5):
            r = subprocess.run(["git", "-C", "/repo", "worktree", "add", "-q", "--detach", self.wt, "HEAD"], stdout=subprocess.PIPE, stderr=subprocess.STDOUT)
            if r.returncode == 0:
                break
            shutil.rmtree(self.wt, ignore_errors=True)
            subprocess.run(["git", "-C", "/repo", "worktree", "prune"], stdout=subprocess.DEVNULL, stderr=subprocess.DEVNULL)
            import time as _t

            _t.sleep(1 + attempt)
        else:
            raise RuntimeError("git worktree add failed: %s" % r.stdout.decode()[-300:])
        self.applied = None
        if patch:
            r = subprocess.run(["git", "-C", self.wt, "apply", "--whitespace=nowarn", patch], stdout=subprocess.PIPE, stderr=subprocess.STDOUT)
            self.applied = r.returncode == 0
            self.apply_output = r.stdout.decode()
            if not self.applied:
                # the repository moved on since the patch was written: three-way merge
                r = subprocess.run(["git", "-C", self.wt, "apply", "--3way", "--whitespace=nowarn", patch], stdout=subprocess.PIPE, stderr=subprocess.STDOUT)
                self.applied = r.returncode == 0 and b"with conflicts" not in r.stdout
                self.apply_output += r.stdout.decode()
                self.three_way = True

    def close(self):
        subprocess.run(["git", "-C", "/repo", "worktree", "remove", "--force", self.wt], stdout=subprocess.DEVNULL, stderr=subprocess.DEVNULL)
        shutil.rmtree(self.dir, ignore_errors=True)
        subprocess.run(["git", "-C", "/repo", "worktree", "prune"], stdout=subprocess.DEVNULL, stderr=subprocess.DEVNULL)

    def env(self):
        e = dict(os.environ)
        e["PYTHONPATH"] = os.path.join(self.wt, "src")
        e["PYTHONDONTWRITEBYTECODE"] = "1"
        return e

    def tests(self):
        r = subprocess.run([PY, "-m", "pytest", "-q", "-p", "no:cacheprovider", "-x"], cwd=self.wt, env=self.env(), stdout=subprocess.PIPE, stderr=subprocess.STDOUT, timeout=900)
        tail = r.stdout.decode("utf8", "replace").strip().splitlines()[-1:]
        return r.returncode == 0, " ".join(tail)

    def demo(self, demo):
        try:
            r = subprocess.run([PY, demo], cwd=os.path.dirname(demo), env=self.env(), stdout=subprocess.PIPE, stderr=subprocess.STDOUT, timeout=180)
        except subprocess.TimeoutExpired:
            return 124, "timeout"
        return r.returncode, r.stdout.decode("utf8", "replace").strip()[-300:]

    def check(self, prop, tier="quick", seed="0"):
        e = dict(os.environ, VERIF_REPO=self.wt, VERIF_TIER=tier, VERIF_NO_EVIDENCE="1", VERIF_SEED=seed)
        r = subprocess.run([PY, "-m", "vf.check", prop], cwd=HERE, env=e, stdout=subprocess.PIPE, stderr=subprocess.STDOUT, timeout=7200)
        out = r.stdout.decode("utf8", "replace")
        first = next((l.strip()[:220] for l in out.splitlines() if l.strip().startswith("mechanism=")), "")
        if r.returncode == 1 and "VIOLATION property=%s" % prop in out:
            return "CAUGHT", first
        if r.returncode == 2:
            return "INCONCLUSIVE", out.strip()[-300:]
        return "MISSED", out.strip().splitlines()[-1][:200] if out.strip() else ""


def confirm(d):
    d = os.path.abspath(d)
    patch, demo = os.path.join(d, "patch.diff"), os.path.join(d, "demo.py")
    clean = Tree()
    try:
        rc0, out0 = clean.demo(demo)
    finally:
        clean.close()
    t = Tree(patch)
    try:
        if not t.applied:
            print("patch does not apply: %s" % t.apply_output)
            return False
        ok, tail = t.tests()
        rc1, out1 = t.demo(demo)
    finally:
        t.close()
    print("demo on clean tree: rc=%d   tests with patch: %s (%s)   demo with patch: rc=%d" % (rc0, "pass" if ok else "FAIL", tail, rc1))
    if rc1 not in (0,):
        print("   demo output with patch: %s" % out1.replace("\n", " | ")[-240:])
    good = rc0 == 0 and ok and rc1 not in (0, 124)
    print("CONFIRMED" if good else "NOT CONFIRMED")
    return good


def check(d, props, tier="quick"):
    d = os.path.abspath(d)
    t = Tree(os.path.join(d, "patch.diff"))
    res = {}
    try:
        if not t.applied:
            print("patch does not apply")
            return res
        for p in props:
            res[p] = t.check(p, tier)
            print("%-28s %-4s %-12s %s" % (os.path.basename(d), p, res[p][0], res[p][1]), flush=True)
    finally:
        t.close()
    return res


def matrix(tier="quick", update=False, jobs=4, only=None):
    from concurrent.futures import ThreadPoolExecutor

    names = []
    for name in sorted(os.listdir(SEEDED)):
        if only and not any(name.startswith(o) or name.endswith(o) for o in only):
            continue
        if os.path.exists(os.path.join(SEEDED, name, "meta.json")):
            names.append(name)

    def one(name):
        d = os.path.join(SEEDED, name)
        meta = json.load(open(os.path.join(d, "meta.json")))
        props = [meta["property"]] + [p for p in meta.get("also_check", [])]
        return name, check(d, props, tier)

    with ThreadPoolExecutor(jobs) as ex:
        rows = list(ex.map(one, names))
    if update and tier == "quick":
        for name, res in rows:
            if not res:
                continue
            mp = os.path.join(SEEDED, name, "meta.json")
            meta = json.load(open(mp))
            now = {p: {"verdict": v[0], "first_violation": v[1]} for p, v in res.items()}
            before = meta.get("quick_check", {})
            changed = {p: v["verdict"] for p, v in before.items()} != {p: v["verdict"] for p, v in now.items() if p in before} or set(now) != set(before)
            if changed and "first_quick_check" not in meta:
                meta["first_quick_check"] = before
            meta["quick_check"] = now
            with open(mp, "w") as fh:
                json.dump(meta, fh, indent=1)
    missed = [n for n, r in rows if not any(v[0] == "CAUGHT" for v in r.values())]
    print("%d seeded changes, %d caught, not caught: %s" % (len(rows), len(rows) - len(missed), missed))
    return 1 if missed else 0


def import_(src, name, prop):
    """Copy a sub-agent's out/<X> directory to seeded/<name>, confirm it, run the check, write meta.json."""
    dst = os.path.join(SEEDED, name)
    os.makedirs(dst, exist_ok=True)
    for f in ("patch.diff", "demo.py", "README.md"):
        shutil.copy(os.path.join(src, f), os.path.join(dst, f))
    ok = confirm(dst)
    res = check(dst, [prop]) if ok else {}
    readme = open(os.path.join(dst, "README.md")).read().strip()
    meta = {
        "property": prop,
        "origin": "independent sub-agent given only the property text and its own worktree",
        "needs_to_manifest": readme[:900],
        "confirmed": {
            "ran": [
                "git worktree of /repo HEAD under a temp dir; demo.py on the clean tree (must exit 0)",
                "git apply patch.diff; PYTHONPATH=<wt>/src /venv/bin/python -m pytest -q -p no:cacheprovider (must pass)",
                "PYTHONPATH=<wt>/src /venv/bin/python demo.py (must exit non-zero)",
            ],
            "result": "confirmed" if ok else "NOT confirmed",
        },
        "quick_check": {p: {"verdict": v[0], "first_violation": v[1]} for p, v in res.items()},
    }
    with open(os.path.join(dst, "meta.json"), "w") as fh:
        json.dump(meta, fh, indent=1)
    return ok, res


def report():
    """Markdown table of all seeded changes (for DESIGN.md section 9)."""
    print("| id | what the change needs in order to manifest | quick check | first run |")
    print("|---|---|---|---|")
    for name in sorted(os.listdir(SEEDED)):
        mp = os.path.join(SEEDED, name, "meta.json")
        if not os.path.exists(mp):
            continue
        m = json.load(open(mp))
        q = "; ".join("%s %s" % (p, v["verdict"].lower()) for p, v in m.get("quick_check", {}).items())
        f = m.get("first_quick_check")
        first = "; ".join("%s %s" % (p, v["verdict"].lower()) for p, v in f.items()) if f else "same"
        needs = m.get("summary") or m["needs_to_manifest"].split("\n")[0][:160]
        print("| %s | %s | %s | %s |" % (name, needs.replace("|", "/"), q, first))


def main():
    cmd = sys.argv[1]
    if cmd == "report":
        report()
        return
    if cmd == "import":
        import_(sys.argv[2], sys.argv[3], sys.argv[4].upper())
        return
    if cmd == "confirm":
        sys.exit(0 if confirm(sys.argv[2]) else 1)
    if cmd == "check":
        d = sys.argv[2]
        props = [a.upper() for a in sys.argv[3:] if a.upper().startswith("C")]
        tier = "thorough" if "thorough" in sys.argv else "quick"
        if not props:
            props = [json.load(open(os.path.join(d, "meta.json")))["property"]]
        check(d, props, tier)
        return
    if cmd == "matrix":
        rest = sys.argv[2:]
        only = [a for a in rest if a not in ("thorough", "update") and not a.startswith("-j")]
        jobs = [int(a[2:]) for a in rest if a.startswith("-j")]
        sys.exit(matrix("thorough" if "thorough" in rest else "quick", update="update" in rest, jobs=jobs[0] if jobs else 4, only=only or None))


if __name__ == "__main__":
    main()
