#!/usr/bin/env python3
"""Validate MANIFEST.json and evidence/*.json against the schemas (run with python3-vt, which has jsonschema)."""
import glob
import json
import os
import sys

import jsonschema

HERE = os.path.dirname(os.path.dirname(os.path.abspath(__file__)))
ok = True
ms = json.load(open("/root/.vp/MANIFEST.schema.json"))
es = json.load(open("/root/.vp/EVIDENCE.schema.json"))
man = json.load(open(os.path.join(HERE, "MANIFEST.json")))
try:
    jsonschema.validate(man, ms)
    print("MANIFEST ok: %d checks, %d not_applicable" % (len(man["checks"]), len(man.get("not_applicable", []))))
except jsonschema.ValidationError as exc:
    ok = False
    print("MANIFEST INVALID:", exc.message)
claimed = {c["property_id"]: c for c in man["checks"]}
for pid, c in sorted(claimed.items()):
    path = c["evidence_file"]
    if not os.path.exists(path):
        ok = False
        print(pid, "evidence file missing")
        continue
    ev = json.load(open(path))
    try:
        jsonschema.validate(ev, es)
    except jsonschema.ValidationError as exc:
        ok = False
        print(pid, "EVIDENCE INVALID:", exc.message[:200])
        continue
    cov = ev["coverage"]
    flags = []
    if ev["level"] != c["level_claimed"]["category"]:
        flags.append("level mismatch %s vs %s" % (ev["level"], c["level_claimed"]["category"]))
    if cov["distinct_nontrivial"] > cov["evaluations"]:
        flags.append("distinct > evaluations")
    if ev.get("violations"):
        flags.append("violations=%d" % ev["violations"])
    if cov.get("inconclusive"):
        flags.append("inconclusive")
    print("%s ok tier=%s seed=%s eval=%d distinct=%d samples=%d wall=%.0fs %s" % (pid, ev["tier"], ev["seed"], cov["evaluations"], cov["distinct_nontrivial"], len(cov["samples"]), ev["wall_s"], "; ".join(flags)))
    if flags:
        ok = False
sys.exit(0 if ok else 1)
