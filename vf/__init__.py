"""Runtime-monitoring rig for exhuma/puresnmp (see /verif/DESIGN.md)."""
