"""
Reference SNMP agent (RFC 1157 / RFC 3416 / RFC 3412 / RFC 3414), built only
on vf.ber.  It is deliberately conformant-only: every deviant behaviour lives
in vf.adversary.  Every security decision is counted.
"""

import bisect
from collections import Counter

from . import ber, privxf

DEFAULT_ENGINE_ID = bytes.fromhex("80001f8804") + b"vf-agent"


class User:
    def __init__(self, name, auth=None, priv=None):
        """
        name: bytes
        auth: None or (hashname, password)
        priv: None or (variant, password)
        """
        self.name = bytes(name)
        self.auth = auth
        self.priv = priv

    @property
    def level(self):
        return (1 if self.auth else 0) | (2 if self.priv else 0)

    def auth_key(self, engine_id):
        return ber.localized_key(self.auth[0], bytes(self.auth[1]), bytes(engine_id))

    def priv_key(self, engine_id):
        # RFC 3414 §2.6 / RFC 3826: the privacy password is localised with
        # the user's *authentication* hash.
        return ber.localized_key(self.auth[0], bytes(self.priv[1]), bytes(engine_id))


class BulkPolicy:
    """
    Conformant GETBULK truncation choices (RFC 3416 §4.2.3).

    mode: full | fewer | partial_last | stop_eomv | partial_first
    """

    def __init__(self, mode="stop_eomv", rng=None):
        self.mode = mode
        self.rng = rng
        self.calls = 0

    def apply(self, nonrep, rows, n_rep):
        """rows: list of repetition rows (each a list of n_rep bindings)."""
        mode = self.mode
        self.calls += 1
        if mode.startswith("partial_first_once"):
            # only ONE response (the k-th, "partial_first_once:k", default the first) is
            # cut inside its first row; all others are complete
            k = int(mode.split(":")[1]) if ":" in mode else 1
            mode = "partial_first" if self.calls == k else "full"
        keep_fixed = None
        if mode == "one_binding":
            # a tiny message buffer: one binding fits per response
            mode, keep_fixed = "partial_first_fixedk", 1
        elif mode.startswith("max_bindings:"):
            # a persistent local limit: never more than k bindings per response
            mode, keep_fixed = "partial_first_fixedk", int(mode.split(":")[1])
        if mode in ("stop_eomv", "fewer", "partial_last", "partial_first"):
            cut = []
            for row in rows:
                cut.append(row)
                if row and all(v[0] == "eomv" for _, v in row):
                    break
            rows = cut
        if mode == "fewer" and rows and self.rng is not None:
            k = self.rng.randint(1, len(rows))
            rows = rows[:k]
        flat = [vb for row in rows for vb in row]
        if mode == "partial_last" and self.rng is not None and n_rep > 1 and rows:
            t = self.rng.randint(0, n_rep - 1)
            # remove t trailing bindings, but keep at least the first row whole
            if len(flat) - t >= n_rep:
                flat = flat[: len(flat) - t]
        if mode == "partial_first" and self.rng is not None and n_rep > 1 and rows:
            keep = self.rng.randint(1, n_rep - 1)
            flat = flat[:keep]
        if mode == "partial_first_fixedk" and rows:
            flat = flat[:keep_fixed]
        return list(nonrep) + flat


class Agent:
    def __init__(
        self,
        db=None,
        community=b"public",
        versions=(0, 1, 3),
        engine_id=DEFAULT_ENGINE_ID,
        users=(),
        clock=None,
        boots=1,
        bulk_policy=None,
        resp_forms=None,
        v3_resp_forms=None,
        readonly=(),
        any_context=False,
        max_size=65507,
    ):
        self.db = dict(db or {})
        self._keys = sorted(self.db)
        self.community = bytes(community)
        self.versions = set(versions)
        self.engine_id = bytes(engine_id)
        self.users = {u.name: u for u in users}
        self.clock = clock
        self.boots = boots
        self.boot_epoch = clock.now if clock is not None else 0.0
        self.bulk_policy = bulk_policy or BulkPolicy("stop_eomv")
        self.resp_forms = resp_forms
        self.v3_resp_forms = v3_resp_forms
        self.readonly = set(readonly)
        self.any_context = any_context
        # msgMaxSize the agent announces: the largest message IT can receive
        # (RFC 3412 6.3); it does not bound what the agent sends
        self.max_size = max_size
        # adversary plumbing (vf.adversary / the checks): called with the
        # request PDU and the conformant response PDU, returns the response
        # PDU that is actually sent (or None to drop).  The reference agent
        # itself never deviates.
        self.pdu_hook = None
        self.counters = Counter()
        self.requests = []  # one record per datagram handled
        self.sets = []  # (oid, value) pairs written

    # -- database -----------------------------------------------------------

    def set_db(self, db):
        self.db = dict(db)
        self._keys = sorted(self.db)

    def successor(self, oid):
        i = bisect.bisect_right(self._keys, tuple(oid))
        if i < len(self._keys):
            return self._keys[i]
        return None

    def engine_time(self):
        if self.clock is None:
            return 0
        return int(self.clock.now - self.boot_epoch)

    def reboot(self):
        self.boots += 1
        self.boot_epoch = self.clock.now if self.clock is not None else 0.0

    # -- PDU processing -----------------------------------------------------

    def _get_value(self, oid):
        oid = tuple(oid)
        if oid in self.db:
            return self.db[oid]
        prefix = oid[:-1]
        for key in self._keys:
            if key[: len(prefix)] == prefix and len(key) >= len(prefix):
                return ("nsi", None)
        return ("nso", None)

    def process_pdu(self, pdu, version):
        """Returns a response PDU dict, or None (drop)."""
        typ = pdu["type"]
        rid = pdu["request_id"]
        vbs = pdu["varbinds"]
        self.counters["pdu_0x%02x" % typ] += 1

        def response(varbinds, status=0, index=0):
            return {
                "type": ber.PDU_RESPONSE,
                "request_id": rid,
                "error_status": status,
                "error_index": index,
                "varbinds": varbinds,
            }

        if typ == ber.PDU_GET:
            out = []
            for i, (oid, _) in enumerate(vbs):
                val = self._get_value(oid)
                if version == 0 and val[0] in ("nso", "nsi"):
                    return response(list(vbs), 2, i + 1)
                out.append((oid, val))
            return response(out)
        if typ == ber.PDU_GETNEXT:
            out = []
            for i, (oid, _) in enumerate(vbs):
                nxt = self.successor(oid)
                if nxt is None:
                    if version == 0:
                        return response(list(vbs), 2, i + 1)
                    out.append((oid, ("eomv", None)))
                else:
                    out.append((nxt, self.db[nxt]))
            return response(out)
        if typ == ber.PDU_SET:
            for i, (oid, _) in enumerate(vbs):
                if tuple(oid) in self.readonly:
                    return response(list(vbs), 17 if version else 4, i + 1)
            for oid, val in vbs:
                self.db[tuple(oid)] = val
                self.sets.append((tuple(oid), val))
            self._keys = sorted(self.db)
            return response(list(vbs))
        if typ == ber.PDU_GETBULK:
            if version == 0:
                self.counters["bulk_on_v1_dropped"] += 1
                return None
            nonrep_n = max(pdu["error_status"], 0)
            maxrep = max(pdu["error_index"], 0)
            nonrep_n = min(nonrep_n, len(vbs))
            nonrep = []
            for oid, _ in vbs[:nonrep_n]:
                nxt = self.successor(oid)
                if nxt is None:
                    nonrep.append((oid, ("eomv", None)))
                else:
                    nonrep.append((nxt, self.db[nxt]))
            reps = [tuple(oid) for oid, _ in vbs[nonrep_n:]]
            rows = []
            cur = list(reps)
            if reps:
                for _ in range(maxrep):
                    row = []
                    for j, oid in enumerate(cur):
                        nxt = self.successor(oid)
                        if nxt is None:
                            row.append((oid, ("eomv", None)))
                        else:
                            row.append((nxt, self.db[nxt]))
                            cur[j] = nxt
                    rows.append(row)
            return response(self.bulk_policy.apply(nonrep, rows, len(reps)))
        self.counters["unhandled_pdu"] += 1
        return None

    # -- message processing -------------------------------------------------

    def handle(self, data):
        """One datagram in, one datagram (or None) out."""
        rec = {"raw": bytes(data), "verdict": None}
        self.requests.append(rec)
        try:
            msg = ber.decode_message(data)
        except ber.BerError as exc:
            self.counters["asn_parse_error"] += 1
            rec["verdict"] = "parse_error: %s" % exc
            return None
        rec["msg"] = msg
        if msg["version"] not in self.versions:
            self.counters["bad_version"] += 1
            rec["verdict"] = "bad_version"
            return None
        if msg["version"] in (0, 1):
            if msg["community"] != self.community:
                self.counters["bad_community"] += 1
                rec["verdict"] = "bad_community"
                return None
            rec["pdu"] = msg["pdu"]
            resp = self.process_pdu(msg["pdu"], msg["version"])
            rec["verdict"] = "ok"
            if resp is not None and self.pdu_hook is not None:
                rec["conformant_response_pdu"] = resp
                resp = self.pdu_hook(msg["pdu"], resp)
            if resp is None:
                return None
            rec["response_pdu"] = resp
            return ber.enc_community_message(
                msg["version"], self.community, resp, self.resp_forms
            )
        return self._handle_v3(data, msg, rec)

    def _report(self, msg, stat, user=b"", auth_user=None, request_id=0):
        self.counters[stat] += 1
        pdu = {
            "type": ber.PDU_REPORT,
            "request_id": request_id,
            "error_status": 0,
            "error_index": 0,
            "varbinds": [(ber.USM_STATS[stat], ("c32", self.counters[stat]))],
        }
        return self._v3_out(
            msg,
            pdu,
            level=1 if auth_user is not None else 0,
            user=auth_user,
            user_name=user,
            ctx_engine=getattr(self, "report_context_engine", None),
            zero_timing=stat == "unknown_engine" and getattr(self, "two_step_discovery", False),
        )

    def _v3_out(self, msg, pdu, level, user, user_name=None, forms=None, ctx_engine=None, zero_timing=False):
        if user_name is None:
            user_name = user.name if user is not None else b""
        usm = {
            "engine_id": self.engine_id,
            # RFC 3414 section 4: the unauthenticated discovery step reveals the engine
            # id; an agent may leave boots/time at zero there and reveal them only in
            # the authenticated notInTimeWindow report of the second step
            "boots": 0 if zero_timing else self.boots,
            "time": 0 if zero_timing else self.engine_time(),
            "user": user_name,
            "auth": b"\x00" * 12 if level & 1 else b"",
            "priv": b"",
        }
        out = {
            "msg_id": msg["msg_id"],
            "max_size": self.max_size,
            "flags": level,
            "sec_model": 3,
            "usm": usm,
        }
        # reports may name another context engine than the authoritative engine that
        # signs them (a proxy, a non-default context); responses always name ours
        ce = ctx_engine if ctx_engine is not None else self.engine_id
        scoped = ber.enc_scoped_pdu(ce, b"", pdu, forms)
        if "scoped" in msg:
            scoped = ber.enc_scoped_pdu(
                ce, msg["scoped"]["ctx_name"], pdu, forms
            )
        elif "_ctx_name" in msg:
            scoped = ber.enc_scoped_pdu(ce, msg["_ctx_name"], pdu, forms)
        if level & 2:
            key = user.priv_key(self.engine_id)
            pad = getattr(self, "scoped_padding", b"")
            if pad:
                # block ciphers: the scoped PDU is padded to the block size before it is
                # encrypted and the padding is ignored by the receiver (RFC 3414 8.1.1.2)
                scoped = scoped + bytes(pad)
            cipher, salt = privxf.encrypt(
                user.priv[0], key, self.engine_id, usm["boots"], usm["time"], scoped
            )
            usm["priv"] = salt
            out["encrypted"] = cipher
        else:
            out["scoped_raw"] = scoped
        raw = ber.enc_v3_message(out, forms)
        if level & 1:
            back = ber.decode_message(raw)
            a0, a1 = back["auth_span"]
            digest = ber.hmac96(user.auth[0], user.auth_key(self.engine_id), raw)
            raw = raw[:a0] + digest + raw[a1:]
        return raw

    def _handle_v3(self, data, msg, rec):
        usm = msg["usm"]
        flags = msg["flags"]
        level = flags & 3
        reportable = bool(flags & 4)
        rec["flags"] = flags
        rec["usm"] = {k: v for k, v in usm.items() if not k.startswith("_")}
        if msg["sec_model"] != 3:
            self.counters["unknown_security_model"] += 1
            rec["verdict"] = "unknown_security_model"
            return None
        if level == 2:
            self.counters["invalid_msg_flags"] += 1
            rec["verdict"] = "invalid_flags"
            return None
        # request-id for reports where the PDU is readable
        req_id = 0
        if "scoped" in msg:
            req_id = msg["scoped"]["pdu"]["request_id"]
        if usm["engine_id"] != self.engine_id:
            rec["verdict"] = "unknown_engine"
            if usm["engine_id"] == b"" and usm["user"] == b"" and level == 0:
                rec["discovery"] = True
            if not reportable:
                self.counters["unknown_engine"] += 1
                return None
            # the report echoes the user name of the request (RFC 3412 7.1 (3):
            # built from the security state of the incoming message)
            return self._report(msg, "unknown_engine", user=usm["user"], request_id=req_id)
        user = self.users.get(usm["user"])
        if user is None:
            rec["verdict"] = "unknown_user"
            if not reportable:
                self.counters["unknown_user"] += 1
                return None
            return self._report(
                msg, "unknown_user", user=usm["user"], request_id=req_id
            )
        if level != user.level:
            # The agent's access policy grants each user exactly its own
            # security level (a request below it is refused, above it the
            # user has no keys for).
            rec["verdict"] = "unsupported_level"
            if not reportable:
                self.counters["unsupported_level"] += 1
                return None
            return self._report(
                msg, "unsupported_level", user=user.name, request_id=req_id
            )
        if level & 1:
            a0, a1 = msg["auth_span"]
            if a1 - a0 != 12:
                rec["verdict"] = "wrong_digest"
                return self._maybe_report(
                    reportable, msg, "wrong_digest", user.name, req_id
                )
            zeroed = data[:a0] + b"\x00" * 12 + data[a1:]
            expect = ber.hmac96(user.auth[0], user.auth_key(self.engine_id), zeroed)
            if expect != data[a0:a1]:
                rec["verdict"] = "wrong_digest"
                return self._maybe_report(
                    reportable, msg, "wrong_digest", user.name, req_id
                )
            now = self.engine_time()
            rec["agent_time"] = (self.boots, now)
            if (
                usm["boots"] != self.boots
                or abs(usm["time"] - now) > 150
                or self.boots == 2147483647
            ):
                rec["verdict"] = "not_in_window"
                if not reportable:
                    self.counters["not_in_window"] += 1
                    return None
                return self._report(
                    msg,
                    "not_in_window",
                    user=user.name,
                    auth_user=user,
                    request_id=req_id,
                )
        if level & 2:
            if "encrypted" not in msg:
                rec["verdict"] = "decrypt_error"
                return self._maybe_report(
                    reportable, msg, "decrypt_error", user.name, req_id
                )
            try:
                plain = privxf.decrypt(
                    user.priv[0],
                    user.priv_key(self.engine_id),
                    self.engine_id,
                    usm["boots"],
                    usm["time"],
                    usm["priv"],
                    msg["encrypted"],
                )
                scoped = ber.dec_scoped_pdu(plain, 0, len(plain))
            except (ber.BerError, ValueError) as exc:
                rec["verdict"] = "decrypt_error: %s" % exc
                return self._maybe_report(
                    reportable, msg, "decrypt_error", user.name, req_id
                )
            rec["plain_scoped"] = plain
        else:
            if "scoped" not in msg:
                rec["verdict"] = "plain_expected"
                self.counters["asn_parse_error"] += 1
                return None
            scoped = msg["scoped"]
        rec["scoped"] = scoped
        rec["pdu"] = scoped["pdu"]
        msg = dict(msg)
        msg["_ctx_name"] = scoped["ctx_name"]
        if scoped["ctx_engine"] != self.engine_id and not self.any_context:
            self.counters["unknown_context_engine"] += 1
            rec["verdict"] = "unknown_context_engine"
            return None
        rec["verdict"] = "ok"
        self.counters["v3_ok"] += 1
        resp = self.process_pdu(scoped["pdu"], 3)
        if resp is not None and self.pdu_hook is not None:
            rec["conformant_response_pdu"] = resp
            resp = self.pdu_hook(scoped["pdu"], resp)
        if resp is None:
            return None
        rec["response_pdu"] = resp
        return self._v3_out(msg, resp, level, user, forms=self.v3_resp_forms)

    def _maybe_report(self, reportable, msg, stat, user_name, req_id):
        if not reportable:
            self.counters[stat] += 1
            return None
        return self._report(msg, stat, user=user_name, request_id=req_id)
