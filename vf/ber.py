"""
Independent BER / SNMP codec written from X.690 §8, RFC 1157, RFC 3416,
RFC 3412 §6 and RFC 3414 §2.4 / A.2.

This module imports NOTHING from x690 or puresnmp: it is the oracle the
monitors compare the code under test against.

Values are plain tuples ``(kind, value)``:

    ("int", n)      INTEGER                 02
    ("str", b)      OCTET STRING            04
    ("null", None)  NULL                    05
    ("oid", (..))   OBJECT IDENTIFIER       06
    ("ip", b4)      IpAddress               40
    ("c32", n)      Counter32               41
    ("g32", n)      Gauge32 / Unsigned32    42
    ("tt", n)       TimeTicks               43
    ("opaque", b)   Opaque                  44
    ("c64", n)      Counter64               46
    ("nso", None)   noSuchObject            80
    ("nsi", None)   noSuchInstance          81
    ("eomv", None)  endOfMibView            82
"""

import hashlib
from functools import lru_cache


class BerError(Exception):
    """The independent decoder refused the bytes."""


TAGS = {
    "int": 0x02,
    "str": 0x04,
    "null": 0x05,
    "oid": 0x06,
    "ip": 0x40,
    "c32": 0x41,
    "g32": 0x42,
    "tt": 0x43,
    "opaque": 0x44,
    "c64": 0x46,
    "nso": 0x80,
    "nsi": 0x81,
    "eomv": 0x82,
}
KINDS = {v: k for k, v in TAGS.items()}

PDU_GET = 0xA0
PDU_GETNEXT = 0xA1
PDU_RESPONSE = 0xA2
PDU_SET = 0xA3
PDU_V1TRAP = 0xA4
PDU_GETBULK = 0xA5
PDU_INFORM = 0xA6
PDU_TRAP = 0xA7
PDU_REPORT = 0xA8
PDU_TAGS = (0xA0, 0xA1, 0xA2, 0xA3, 0xA5, 0xA6, 0xA7, 0xA8)

USM_STATS = {
    "unsupported_level": (1, 3, 6, 1, 6, 3, 15, 1, 1, 1, 0),
    "not_in_window": (1, 3, 6, 1, 6, 3, 15, 1, 1, 2, 0),
    "unknown_user": (1, 3, 6, 1, 6, 3, 15, 1, 1, 3, 0),
    "unknown_engine": (1, 3, 6, 1, 6, 3, 15, 1, 1, 4, 0),
    "wrong_digest": (1, 3, 6, 1, 6, 3, 15, 1, 1, 5, 0),
    "decrypt_error": (1, 3, 6, 1, 6, 3, 15, 1, 1, 6, 0),
}


# ---------------------------------------------------------------------------
# Encoding
# ---------------------------------------------------------------------------


def enc_len(n, form=None):
    """
    Length octets for ``n``.

    form None -> minimal (short form below 128, else shortest long form)
    form 0    -> short form (n must be < 128)
    form k>0  -> long form with exactly k length octets (value must fit)
    """
    if form is None:
        if n < 128:
            return bytes([n])
        k = (n.bit_length() + 7) // 8
        return bytes([0x80 | k]) + n.to_bytes(k, "big")
    if form == 0:
        if n >= 128:
            raise ValueError("short form needs n < 128")
        return bytes([n])
    if n >= 1 << (8 * form):
        raise ValueError("length does not fit")
    return bytes([0x80 | form]) + n.to_bytes(form, "big")


def len_fits(n, form):
    """True if ``n`` can be written with length form ``form``."""
    if form is None:
        return True
    if form == 0:
        return n < 128
    return n < 1 << (8 * form)


def tlv(tag, content, form=None):
    """
    One TLV with a single identifier octet.  A requested length form that
    cannot hold the length falls back to the minimal form.
    """
    if not len_fits(len(content), form):
        form = None
    return bytes([tag]) + enc_len(len(content), form) + content


def enc_int_content(n):
    """Minimal two's complement contents octets (X.690 §8.3)."""
    if n >= 0:
        k = n.bit_length() // 8 + 1
    else:
        k = (n + 1).bit_length() // 8 + 1
    return n.to_bytes(k, "big", signed=True)


def enc_subid(n):
    """Base-128 sub-identifier (X.690 §8.19.2)."""
    if n < 0:
        raise ValueError("negative sub-identifier")
    out = [n & 0x7F]
    n >>= 7
    while n:
        out.append((n & 0x7F) | 0x80)
        n >>= 7
    return bytes(reversed(out))


def enc_oid_content(arcs):
    """Contents octets of an OBJECT IDENTIFIER (X.690 §8.19)."""
    arcs = tuple(arcs)
    if not arcs:
        return b""
    if len(arcs) == 1:
        raise ValueError("an OID needs at least two arcs")
    first, second = arcs[0], arcs[1]
    if first > 2 or (first < 2 and second > 39):
        raise ValueError("invalid first arcs %r" % (arcs[:2],))
    out = bytearray(enc_subid(first * 40 + second))
    for arc in arcs[2:]:
        out += enc_subid(arc)
    return bytes(out)


def enc_value_content(val):
    """Contents octets for a ``(kind, value)`` tuple."""
    kind, value = val
    if kind in ("int", "c32", "g32", "tt", "c64"):
        return enc_int_content(value)
    if kind in ("str", "opaque"):
        return bytes(value)
    if kind in ("null", "nso", "nsi", "eomv"):
        return b""
    if kind == "oid":
        return enc_oid_content(value)
    if kind == "ip":
        if len(value) != 4:
            raise ValueError("IpAddress needs 4 octets")
        return bytes(value)
    raise ValueError("unknown kind %r" % (kind,))


def enc_value(val, form=None):
    """Full TLV for a ``(kind, value)`` tuple.  ("rawtlv", octets) is emitted verbatim: a
    value whose CONTENT does not suit its type (an IpAddress of 17 octets, ...), used only
    where a check deliberately plays a sloppy agent."""
    if val[0] == "rawtlv":
        return bytes(val[1])
    return tlv(TAGS[val[0]], enc_value_content(val), form)


def enc_integer(n, form=None):
    return tlv(0x02, enc_int_content(n), form)


def enc_octets(b, form=None):
    return tlv(0x04, bytes(b), form)


def enc_oid(arcs, form=None):
    return tlv(0x06, enc_oid_content(arcs), form)


def _f(forms, key):
    if not forms:
        return None
    return forms.get(key)


def enc_varbind(oid, val, forms=None):
    body = enc_oid(oid, _f(forms, "oid")) + enc_value(val, _f(forms, "val"))
    return tlv(0x30, body, _f(forms, "vb"))


def enc_pdu(pdu, forms=None):
    """
    pdu: dict(type, request_id, error_status, error_index, varbinds)
    For GETBULK error_status / error_index carry non-repeaters /
    max-repetitions.
    """
    vbl = b"".join(
        enc_varbind(oid, val, forms) for oid, val in pdu["varbinds"]
    )
    body = (
        enc_integer(pdu["request_id"], _f(forms, "int"))
        + enc_integer(pdu.get("error_status", 0), _f(forms, "int"))
        + enc_integer(pdu.get("error_index", 0), _f(forms, "int"))
        + tlv(0x30, vbl, _f(forms, "vbl"))
    )
    return tlv(pdu["type"], body, _f(forms, "pdu"))


def enc_community_message(version, community, pdu, forms=None):
    body = (
        enc_integer(version, _f(forms, "int"))
        + enc_octets(community, _f(forms, "community"))
        + enc_pdu(pdu, forms)
    )
    return tlv(0x30, body, _f(forms, "msg"))


def enc_usm_params(usm, forms=None):
    body = (
        enc_octets(usm["engine_id"])
        + enc_integer(usm["boots"])
        + enc_integer(usm["time"])
        + enc_octets(usm["user"])
        + enc_octets(usm["auth"])
        + enc_octets(usm["priv"])
    )
    return tlv(0x30, body, _f(forms, "usm"))


def enc_scoped_pdu(ctx_engine, ctx_name, pdu, forms=None):
    body = enc_octets(ctx_engine) + enc_octets(ctx_name) + enc_pdu(pdu, forms)
    return tlv(0x30, body, _f(forms, "spdu"))


def enc_v3_message(msg, forms=None):
    """
    msg: dict(msg_id, max_size, flags, sec_model, usm, and either
    scoped=(ctx_engine, ctx_name, pdu) / scoped_raw=bytes (already encoded
    scoped PDU TLV) or encrypted=bytes)
    """
    header = tlv(
        0x30,
        enc_integer(msg["msg_id"], _f(forms, "int"))
        + enc_integer(msg["max_size"])
        + enc_octets(bytes([msg["flags"]]))
        + enc_integer(msg.get("sec_model", 3)),
        _f(forms, "header"),
    )
    if "usm_raw" in msg:
        sec = enc_octets(msg["usm_raw"], _f(forms, "sec"))
    else:
        sec = enc_octets(enc_usm_params(msg["usm"], forms), _f(forms, "sec"))
    if "encrypted" in msg:
        data = enc_octets(msg["encrypted"], _f(forms, "enc"))
    elif "scoped_raw" in msg:
        data = msg["scoped_raw"]
    else:
        data = enc_scoped_pdu(*msg["scoped"], forms=forms)
    body = enc_integer(3) + header + sec + data
    return tlv(0x30, body, _f(forms, "msg"))


# ---------------------------------------------------------------------------
# Decoding (strict)
# ---------------------------------------------------------------------------


def read_tlv(data, pos, end):
    """
    Read one TLV header at ``pos``; the whole TLV must end at or before
    ``end``.  Returns (tag, content_start, content_end).

    Strict: single identifier octet, definite length, at most four length
    octets.  Non-minimal definite lengths are valid BER and are accepted.
    """
    if pos >= end:
        raise BerError("no room for a TLV at %d" % pos)
    tag = data[pos]
    if tag & 0x1F == 0x1F:
        raise BerError("high tag number form at %d" % pos)
    if pos + 1 >= end:
        raise BerError("missing length octet at %d" % pos)
    first = data[pos + 1]
    if first < 0x80:
        length = first
        cstart = pos + 2
    elif first == 0x80:
        raise BerError("indefinite length at %d" % pos)
    elif first == 0xFF:
        raise BerError("reserved length octet at %d" % pos)
    else:
        k = first & 0x7F
        if k > 4:
            raise BerError("more than four length octets at %d" % pos)
        if pos + 2 + k > end:
            raise BerError("truncated length at %d" % pos)
        length = int.from_bytes(data[pos + 2 : pos + 2 + k], "big")
        cstart = pos + 2 + k
    cend = cstart + length
    if cend > end:
        raise BerError(
            "TLV at %d overruns its container (%d > %d)" % (pos, cend, end)
        )
    return tag, cstart, cend


def dec_int_content(content, signed=True):
    if not content:
        raise BerError("empty INTEGER contents")
    return int.from_bytes(content, "big", signed=signed)


def dec_oid_content(content):
    if not content:
        return ()
    subids = []
    cur = 0
    pending = False
    for octet in content:
        cur = (cur << 7) | (octet & 0x7F)
        pending = True
        if not octet & 0x80:
            subids.append(cur)
            cur = 0
            pending = False
    if pending:
        raise BerError("OID ends inside a sub-identifier")
    first = subids[0]
    if first < 40:
        head = (0, first)
    elif first < 80:
        head = (1, first - 40)
    else:
        head = (2, first - 80)
    return head + tuple(subids[1:])


def dec_value(tag, content):
    """Decode one varbind value; returns a ``(kind, value)`` tuple."""
    if tag not in KINDS:
        raise BerError("unexpected value tag 0x%02x" % tag)
    kind = KINDS[tag]
    if kind == "int":
        return (kind, dec_int_content(content, signed=True))
    if kind in ("c32", "g32", "tt", "c64"):
        return (kind, dec_int_content(content, signed=False))
    if kind in ("str", "opaque"):
        return (kind, bytes(content))
    if kind in ("null", "nso", "nsi", "eomv"):
        if content:
            raise BerError("%s with contents" % kind)
        return (kind, None)
    if kind == "oid":
        return (kind, dec_oid_content(content))
    if kind == "ip":
        if len(content) != 4:
            raise BerError("IpAddress with %d octets" % len(content))
        return (kind, bytes(content))
    raise BerError("unreachable")


def _expect(data, pos, end, tag, what):
    got, cstart, cend = read_tlv(data, pos, end)
    if got != tag:
        raise BerError(
            "%s: expected tag 0x%02x, got 0x%02x at %d" % (what, tag, got, pos)
        )
    return cstart, cend


def dec_pdu(data, pos, end):
    """Decode a PDU TLV that must fill data[pos:end] exactly."""
    tag, cstart, cend = read_tlv(data, pos, end)
    if tag not in PDU_TAGS:
        raise BerError("unexpected PDU tag 0x%02x" % tag)
    if cend != end:
        raise BerError("trailing bytes after PDU")
    p = cstart
    fields = []
    for name in ("request-id", "error-status", "error-index"):
        s, e = _expect(data, p, cend, 0x02, name)
        fields.append(dec_int_content(data[s:e]))
        p = e
    vs, ve = _expect(data, p, cend, 0x30, "varbind list")
    if ve != cend:
        raise BerError("trailing bytes after varbind list")
    varbinds = []
    p = vs
    while p < ve:
        bs, be = _expect(data, p, ve, 0x30, "varbind")
        os_, oe = _expect(data, bs, be, 0x06, "varbind name")
        vtag, vcs, vce = read_tlv(data, oe, be)
        if vce != be:
            raise BerError("trailing bytes inside varbind")
        varbinds.append(
            (dec_oid_content(data[os_:oe]), dec_value(vtag, data[vcs:vce]))
        )
        p = be
    return {
        "type": tag,
        "request_id": fields[0],
        "error_status": fields[1],
        "error_index": fields[2],
        "varbinds": varbinds,
        "span": (pos, end),
        "content_len": cend - cstart,
    }


def dec_usm_params(raw):
    s, e = _expect(raw, 0, len(raw), 0x30, "usm parameters")
    if e != len(raw):
        raise BerError("trailing bytes after usm parameters")
    p = s
    out = {}
    offsets = {}
    for name, tag in (
        ("engine_id", 0x04),
        ("boots", 0x02),
        ("time", 0x02),
        ("user", 0x04),
        ("auth", 0x04),
        ("priv", 0x04),
    ):
        cs, ce = _expect(raw, p, e, tag, "usm " + name)
        if tag == 0x02:
            out[name] = dec_int_content(raw[cs:ce])
        else:
            out[name] = bytes(raw[cs:ce])
        offsets[name] = (cs, ce)
        p = ce
    if p != e:
        raise BerError("trailing bytes inside usm parameters")
    out["_offsets"] = offsets
    return out


def dec_scoped_pdu(data, pos, end):
    s, e = _expect(data, pos, end, 0x30, "scoped PDU")
    if e != end:
        raise BerError("trailing bytes after scoped PDU")
    cs, ce = _expect(data, s, e, 0x04, "contextEngineID")
    ns, ne = _expect(data, ce, e, 0x04, "contextName")
    pdu = dec_pdu(data, ne, e)
    return {
        "ctx_engine": bytes(data[cs:ce]),
        "ctx_name": bytes(data[ns:ne]),
        "pdu": pdu,
        "content_len": e - s,
    }


def decode_message(data):
    """
    Decode a whole datagram.  Returns a dict with ``version`` and, for
    community versions, ``community`` and ``pdu``; for version 3 the header
    fields, ``usm`` and either ``scoped`` or ``encrypted``.
    """
    data = bytes(data)
    s, e = _expect(data, 0, len(data), 0x30, "message")
    if e != len(data):
        raise BerError("trailing bytes after message")
    vs, ve = _expect(data, s, e, 0x02, "version")
    version = dec_int_content(data[vs:ve])
    out = {"version": version, "total_len": len(data), "content_len": e - s}
    if version in (0, 1):
        cs, ce = _expect(data, ve, e, 0x04, "community")
        out["community"] = bytes(data[cs:ce])
        out["pdu"] = dec_pdu(data, ce, e)
        return out
    if version != 3:
        raise BerError("unknown version %d" % version)
    hs, he = _expect(data, ve, e, 0x30, "header data")
    p = hs
    s1, e1 = _expect(data, p, he, 0x02, "msgID")
    s2, e2 = _expect(data, e1, he, 0x02, "msgMaxSize")
    s3, e3 = _expect(data, e2, he, 0x04, "msgFlags")
    s4, e4 = _expect(data, e3, he, 0x02, "msgSecurityModel")
    if e4 != he:
        raise BerError("trailing bytes inside header data")
    if e3 - s3 != 1:
        raise BerError("msgFlags must be one octet")
    out["msg_id"] = dec_int_content(data[s1:e1])
    out["max_size"] = dec_int_content(data[s2:e2])
    out["flags"] = data[s3]
    out["flags_off"] = s3
    out["sec_model"] = dec_int_content(data[s4:e4])
    ss, se = _expect(data, he, e, 0x04, "msgSecurityParameters")
    out["usm_raw"] = bytes(data[ss:se])
    out["usm_span"] = (ss, se)
    usm = dec_usm_params(out["usm_raw"])
    out["usm"] = usm
    a0, a1 = usm["_offsets"]["auth"]
    out["auth_span"] = (ss + a0, ss + a1)
    tag, ds, de = read_tlv(data, se, e)
    if de != e:
        raise BerError("trailing bytes after msgData")
    if tag == 0x04:
        out["encrypted"] = bytes(data[ds:de])
        out["data_span"] = (ds, de)
    elif tag == 0x30:
        out["scoped"] = dec_scoped_pdu(data, se, e)
        out["scoped_span"] = (se, e)
    else:
        raise BerError("unexpected msgData tag 0x%02x" % tag)
    return out


def tlv_headers(data, pos=0, end=None, depth=0, out=None, _max_depth=12):
    """
    Walk the TLV tree of a well-formed datagram and return the list of
    header octet positions: (position, "tag" | "len", depth).  Constructed
    encodings and OCTET STRINGs that themselves contain a well-formed
    SEQUENCE (msgSecurityParameters) are descended into.
    """
    if out is None:
        out = []
    if end is None:
        end = len(data)
    p = pos
    while p < end:
        try:
            tag, cs, ce = read_tlv(data, p, end)
        except BerError:
            break
        out.append((p, "tag", depth))
        for q in range(p + 1, cs):
            out.append((q, "len", depth))
        descend = bool(tag & 0x20)
        if tag == 0x04 and ce - cs >= 2 and data[cs] == 0x30:
            try:
                _, ics, ice = read_tlv(data, cs, ce)
                descend = ice == ce
            except BerError:
                descend = False
        if descend and depth < _max_depth:
            tlv_headers(data, cs, ce, depth + 1, out)
        p = ce
    return out


# ---------------------------------------------------------------------------
# RFC 3414
# ---------------------------------------------------------------------------

_HASHES = {"md5": hashlib.md5, "sha1": hashlib.sha1}


@lru_cache(maxsize=None)
def password_to_ku(hashname, password):
    """
    RFC 3414 A.2.1 / A.2.2: digest over the first 1 048 576 octets of the
    endless repetition of the password (fed as a periodic stream).
    """
    if not password:
        raise ValueError("empty password")
    h = _HASHES[hashname]()
    total = 1048576
    block = bytes(password) * 64  # a multiple of 64 and of len(password)
    full, rem = divmod(total, len(block))
    for _ in range(full):
        h.update(block)
    h.update(block[:rem])
    return h.digest()


@lru_cache(maxsize=None)
def localized_key(hashname, password, engine_id):
    """RFC 3414 §2.6: Kul = H(Ku || engineID || Ku)."""
    ku = password_to_ku(hashname, password)
    return _HASHES[hashname](ku + bytes(engine_id) + ku).digest()


def hmac96(hashname, key, message):
    """RFC 3414 §6.3.1 / §7.3.1 written out (RFC 2104), truncated to 96 bit."""
    hfun = _HASHES[hashname]
    if len(key) > 64:
        key = hfun(key).digest()
    key = key + b"\x00" * (64 - len(key))
    k1 = bytes(b ^ 0x36 for b in key)
    k2 = bytes(b ^ 0x5C for b in key)
    inner = hfun(k1 + bytes(message)).digest()
    return hfun(k2 + inner).digest()[:12]


def self_check():
    """
    Oracle self-check; returns a list of failure strings (empty = OK).
    """
    errs = []
    eng = bytes.fromhex("000000000000000000000002")
    if password_to_ku("md5", b"maplesyrup").hex() != (
        "9faf3283884e92834ebc9847d8edd963"
    ):
        errs.append("A.3.1 Ku(md5)")
    if localized_key("md5", b"maplesyrup", eng).hex() != (
        "526f5eed9fcce26f8964c2930787d82b"
    ):
        errs.append("A.3.1 Kul(md5)")
    if password_to_ku("sha1", b"maplesyrup").hex() != (
        "9fb5cc0381497b3793528939ff788d5d79145211"
    ):
        errs.append("A.3.2 Ku(sha1)")
    if localized_key("sha1", b"maplesyrup", eng).hex() != (
        "6695febc9288e36282235fc7151f128497b38f3f"
    ):
        errs.append("A.3.2 Kul(sha1)")
    # RFC 2202 test case 2 for HMAC-MD5 / HMAC-SHA-1 (truncated to 12)
    if hmac96("md5", b"Jefe", b"what do ya want for nothing?").hex() != (
        "750c783e6ab0b503eaa86e31"
    ):
        errs.append("RFC 2202 HMAC-MD5")
    if hmac96("sha1", b"Jefe", b"what do ya want for nothing?").hex() != (
        "effcdf6ae5eb2fa2d27416d5"
    ):
        errs.append("RFC 2202 HMAC-SHA1")
    grid = [
        ("int", 0),
        ("int", 127),
        ("int", 128),
        ("int", -1),
        ("int", -128),
        ("int", -129),
        ("int", 2**31 - 1),
        ("int", -(2**31)),
        ("str", b""),
        ("str", b"x" * 127),
        ("str", b"y" * 128),
        ("str", b"z" * 300),
        ("null", None),
        ("oid", (1, 3, 6, 1, 4, 1, 2**32 - 1, 128, 127, 16384)),
        ("oid", (2, 999, 3)),
        ("oid", (0, 0)),
        ("ip", b"\xc0\x00\x02\x01"),
        ("c32", 2**32 - 1),
        ("g32", 2**31),
        ("tt", 0),
        ("opaque", b"\x9f\x78\x04\x00\x00\x00\x00"),
        ("c64", 2**64 - 1),
        ("nso", None),
        ("nsi", None),
        ("eomv", None),
    ]
    for form in (None, 1, 2, 3, 4):
        vbs = [((1, 3, 6, 1, i), v) for i, v in enumerate(grid)]
        pdu = {
            "type": PDU_RESPONSE,
            "request_id": 2**31 - 1,
            "error_status": 0,
            "error_index": 0,
            "varbinds": vbs,
        }
        forms = None
        if form is not None:
            forms = {k: form for k in ("msg", "pdu", "vbl", "vb", "val", "int")}
        raw = enc_community_message(1, b"public", pdu, forms)
        try:
            back = decode_message(raw)
        except BerError as exc:
            errs.append("roundtrip form=%r: %s" % (form, exc))
            continue
        if back["pdu"]["varbinds"] != vbs or back["community"] != b"public":
            errs.append("roundtrip mismatch form=%r" % (form,))
    # known literal: 1.3.6.1.2.1.1.1.0 (RFC 1157 style)
    if enc_oid((1, 3, 6, 1, 2, 1, 1, 1, 0)).hex() != "06082b06010201010100":
        errs.append("OID literal")
    if enc_integer(-129).hex() != "0202ff7f" or enc_integer(128).hex() != (
        "02020080"
    ):
        errs.append("INTEGER literal")
    v3 = {
        "msg_id": 77,
        "max_size": 65507,
        "flags": 5,
        "usm": {
            "engine_id": b"\x80\x00\x1f\x88\x04abc",
            "boots": 3,
            "time": 99,
            "user": b"u",
            "auth": b"\x00" * 12,
            "priv": b"",
        },
        "scoped": (
            b"eng",
            b"ctx",
            {"type": PDU_GET, "request_id": 5, "varbinds": [((1, 3), ("null", None))]},
        ),
    }
    try:
        back = decode_message(enc_v3_message(v3))
        if (
            back["msg_id"] != 77
            or back["flags"] != 5
            or back["usm"]["user"] != b"u"
            or back["scoped"]["ctx_name"] != b"ctx"
            or back["scoped"]["pdu"]["varbinds"] != [((1, 3), ("null", None))]
        ):
            errs.append("v3 roundtrip mismatch")
        a0, a1 = back["auth_span"]
        if enc_v3_message(v3)[a0:a1] != b"\x00" * 12:
            errs.append("v3 auth span")
    except BerError as exc:
        errs.append("v3 roundtrip: %s" % exc)
    return errs
