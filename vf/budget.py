"""
Logical step monitor (DESIGN 2.6): counts sys.monitoring events
LINE | JUMP | PY_START | PY_RESUME | PY_THROW inside code whose file lies in
puresnmp, puresnmp_plugins or x690, compares the count with a budget and, on
excess, raises ``OverBudget`` (a BaseException) at every further event in
monitored code, so that a ``try/except Exception`` in the code under test
cannot swallow it.  JUMP is required: a one-line ``while`` loop emits no LINE
events.  Verdicts are made on the logical count, never on wall-clock time.
"""

import os
import sys

from . import env

MON = sys.monitoring
TOOL = 3
E = MON.events
EVENTS = E.LINE | E.JUMP | E.PY_START | E.PY_RESUME | E.PY_THROW
# every loop iteration takes a backward JUMP and every call a PY_START, so
# unbounded loops and recursion are still seen without the (costly) LINE events
EVENTS_LIGHT = E.JUMP | E.PY_START | E.PY_RESUME | E.PY_THROW


class OverBudget(BaseException):
    pass


def _monitored_dirs():
    dirs = [os.path.join(env.SRC, "puresnmp") + os.sep, os.path.join(env.SRC, "puresnmp_plugins") + os.sep]
    import x690

    dirs.append(os.path.dirname(os.path.abspath(x690.__file__)) + os.sep)
    return tuple(dirs)


class StepMonitor:
    def __init__(self):
        self.dirs = _monitored_dirs()
        self.count = 0
        self.budget = None
        self.tripped = False
        self.active = False
        self.mode = None
        self._known = {}

    def _mine(self, code):
        try:
            return self._known[code]
        except KeyError:
            fn = code.co_filename
            val = fn.startswith(self.dirs)
            self._known[code] = val
            return val

    def _tick(self, code):
        if not self._mine(code):
            return MON.DISABLE
        self.count += 1
        if self.budget is not None and self.count > self.budget:
            self.tripped = True
            raise OverBudget(self.count)
        return None

    # callbacks (signatures differ per event)
    def _line(self, code, line):
        return self._tick(code)

    def _jump(self, code, src, dst):
        return self._tick(code)

    def _start(self, code, offset):
        return self._tick(code)

    def _throw(self, code, offset, exc):
        if self._mine(code):
            self.count += 1
        return None

    def install(self):
        if self.active:
            return
        MON.use_tool_id(TOOL, "vf-budget")
        MON.register_callback(TOOL, E.LINE, self._line)
        MON.register_callback(TOOL, E.JUMP, self._jump)
        MON.register_callback(TOOL, E.PY_START, self._start)
        MON.register_callback(TOOL, E.PY_RESUME, self._start)
        MON.register_callback(TOOL, E.PY_THROW, self._throw)
        self.active = True

    def arm(self, budget, light=False):
        """Start counting from zero under ``budget`` (None: count only)."""
        self.install()
        self.count = 0
        self.budget = budget
        self.tripped = False
        mode = EVENTS_LIGHT if light else EVENTS
        if mode != self.mode:
            # (re)instrumenting every code object is the expensive part, so the
            # events stay on between trials; un-monitored code stays DISABLEd
            MON.set_events(TOOL, mode)
            MON.restart_events()
            self.mode = mode

    def disarm(self):
        """Stop enforcing; the events stay installed (see arm)."""
        n = self.count
        self.budget = None
        return n

    def off(self):
        MON.set_events(TOOL, 0)
        self.mode = None

    def uninstall(self):
        if self.active:
            MON.set_events(TOOL, 0)
            MON.free_tool_id(TOOL)
            self.active = False


MONITOR = StepMonitor()


def run_budgeted(fn, budget, light=False):
    """
    Run fn() under the step budget.
    Returns (kind, value, steps): kind in {"ok", "exc", "over"}.
    """
    MONITOR.arm(budget, light)
    try:
        try:
            val = fn()
            kind = "ok"
        except OverBudget:
            kind, val = "over", None
        except Exception as exc:  # noqa: BLE001
            kind, val = "exc", exc
        if MONITOR.tripped and kind != "over":
            # something swallowed the first OverBudget and finished anyway
            kind, val = "over", None
    finally:
        steps = MONITOR.disarm()
    return kind, val, steps
