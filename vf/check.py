"""
Entry point:  VERIF_TIER=quick|thorough VERIF_SEED=<n> python -m vf.check Cxx

exit 0  held on everything explored (KNOWN-FINDING lines may be printed)
exit 1  VIOLATION property=<id> replay=<path>
exit 2  INCONCLUSIVE property=<id> reason=...
"""

import argparse
import importlib
import json
import os
import shutil
import subprocess
import sys
import tempfile
import time
import traceback


def _reexec_if_needed():
    if "--shard" not in sys.argv and os.environ.get("VF_VIRTUAL_MONOTONIC"):
        # a per-check child setting (CHILD_ENV) that leaked into the caller's
        # environment: the parent's watchdog must run on the real clock
        env = {k: v for k, v in os.environ.items() if k != "VF_VIRTUAL_MONOTONIC"}
        env["PYTHONHASHSEED"] = "0"
        env["PYTHONDONTWRITEBYTECODE"] = "1"
        os.execve(sys.executable, [sys.executable, "-m", "vf.check"] + sys.argv[1:], env)
    if "--shard" in sys.argv and (os.environ.get("PYTHONHASHSEED") or "").isdigit():
        return  # a shard: the parent chose this interpreter's hash seed
    if os.environ.get("PYTHONHASHSEED") != "0":
        env = dict(os.environ)
        env["PYTHONHASHSEED"] = "0"
        env["PYTHONDONTWRITEBYTECODE"] = "1"
        os.execve(sys.executable, [sys.executable, "-m", "vf.check"] + sys.argv[1:], env)


def _load(prop):
    return importlib.import_module("vf.checks." + prop.lower())


def run_shard(prop, tier, seed, shard, nshards, out_path, replay=None):
    from . import core

    mod = _load(prop)
    cap = getattr(mod, "TIME_CAP", {}).get(tier)
    R = core.Run(prop, tier, seed, shard, nshards, time_cap=cap)
    R.notes["set:interpreter_hash_seeds"] = [int(os.environ.get("PYTHONHASHSEED", "0") or 0)]
    R.notes["set:shards_run_with_python_O"] = [shard] if sys.flags.optimize else []
    core.install_socket_audit()
    core.install_reach_monitor(os.path.join(os.path.abspath(os.environ.get("VERIF_REPO", "/repo")), "src"))
    try:
        from . import ber

        errs = ber.self_check()
        if errs:
            R.inconclusive("oracle self-check failed: %s" % "; ".join(errs))
        elif replay is not None:
            mod.replay(R, replay)
        else:
            mod.run(R)
    except BaseException as exc:  # noqa: BLE001
        R.inconclusive(
            "harness error in shard %d: %r\n%s"
            % (shard, exc, traceback.format_exc()[-2000:])
        )
    with open(out_path, "w") as fh:
        json.dump(R.dump(), fh, default=repr)


def main():
    _reexec_if_needed()
    ap = argparse.ArgumentParser()
    ap.add_argument("prop")
    ap.add_argument("--shard", default=None)
    ap.add_argument("--out", default=None)
    ap.add_argument("--replay", default=None)
    ap.add_argument("--shards", type=int, default=None)
    args = ap.parse_args()

    prop = args.prop.upper()
    tier = os.environ.get("VERIF_TIER", "quick")
    if tier not in ("quick", "thorough"):
        tier = "quick"
    try:
        seed = int(os.environ.get("VERIF_SEED", "0"))
    except ValueError:
        seed = 0

    if args.shard is not None:
        i, n = args.shard.split("/")
        replay = None
        if args.replay:
            with open(args.replay) as fh:
                replay = json.load(fh)
        run_shard(prop, tier, seed, int(i), int(n), args.out, replay)
        return 0

    from . import core

    t0 = time.monotonic()
    mod = _load(prop)
    nshards = args.shards or getattr(mod, "SHARDS", {}).get(tier, 1)
    if args.replay:
        nshards = 1
    watchdog = getattr(mod, "WATCHDOG", {}).get(tier, 3600)
    work = tempfile.mkdtemp(prefix="vf-%s-" % prop.lower())
    procs = []
    child_env = dict(os.environ)
    child_env.update(getattr(mod, "CHILD_ENV", {}))
    replay_hashseed = None
    replay_optimise = False
    if args.replay:
        try:
            with open(args.replay) as fh:
                rj = json.load(fh)
            replay_hashseed = str(rj.get("hashseed", "0"))
            replay_optimise = bool(rj.get("optimise"))
        except (OSError, ValueError):
            replay_hashseed = "0"
    try:
        for i in range(nshards):
            # str/bytes hashing (set and dict iteration order) is a dimension of the
            # workload: every shard's interpreter gets its own, reproducible hash seed
            child_env = dict(child_env, PYTHONHASHSEED=replay_hashseed if replay_hashseed is not None else str((seed * 1009 + i) % 4294967295))
            out = os.path.join(work, "shard%d.json" % i)
            # assert statements are stripped under "python -O": the last shard's
            # interpreter runs that way (recorded in the evidence and in replays)
            optimise = (replay_optimise if args.replay else (nshards > 1 and i == nshards - 1))
            cmd = [sys.executable] + (["-O"] if optimise else []) + [
                "-m",
                "vf.check",
                prop,
                "--shard",
                "%d/%d" % (i, nshards),
                "--out",
                out,
            ]
            if args.replay:
                cmd += ["--replay", args.replay]
            procs.append(
                (
                    i,
                    out,
                    subprocess.Popen(
                        cmd,
                        cwd=core.VERIF_DIR,
                        env=child_env,
                        stdout=subprocess.PIPE,
                        stderr=subprocess.STDOUT,
                    ),
                )
            )
        dumps = []
        problems = []
        for i, out, proc in procs:
            left = max(1.0, watchdog - (time.monotonic() - t0))
            try:
                stdout, _ = proc.communicate(timeout=left)
            except subprocess.TimeoutExpired:
                proc.kill()
                stdout, _ = proc.communicate()
                problems.append("watchdog fired on shard %d after %ds" % (i, watchdog))
                continue
            if proc.returncode != 0 or not os.path.exists(out):
                tail = (stdout or b"").decode("utf8", "replace")[-1500:]
                problems.append(
                    "shard %d died (rc=%s): %s" % (i, proc.returncode, tail)
                )
                continue
            with open(out) as fh:
                dumps.append(json.load(fh))
    finally:
        for _, _, proc in procs:
            if proc.poll() is None:
                proc.kill()
        shutil.rmtree(work, ignore_errors=True)

    m = core.merge(dumps) if dumps else core.merge([])
    m["inconclusive"].extend(problems)
    wall = time.monotonic() - t0

    hermetic = getattr(mod, "HERMETIC", True)
    if hermetic and m["inet_sockets"]:
        m["inconclusive"].append(
            "%d inet sockets were opened in a seam-only check" % m["inet_sockets"]
        )
    distinct = len(m["fingerprints"])
    min_distinct = getattr(mod, "MIN_DISTINCT", {}).get(tier, 2)
    if not args.replay and not m["inconclusive"] and distinct < min_distinct:
        m["inconclusive"].append(
            "deciding monitor observed only %d distinct non-trivial cases (< %d)"
            % (distinct, min_distinct)
        )
    if hasattr(mod, "finalize") and not args.replay and dumps:
        mod.finalize(m, tier)
    reach, silent = core.anchor_reach(prop, m["reached"])
    if not args.replay and dumps and reach and not any(reach["anchor_files"].values()):
        m["inconclusive"].append("the workload never entered any function of the property's anchor files")
    for key in getattr(mod, "REQUIRED_MONITORS", ()):
        if not args.replay and not m["mon"].get(key):
            m["inconclusive"].append("monitor %r observed no events" % key)

    coverage = {
        "evaluations": m["evaluations"],
        "distinct_nontrivial": distinct,
        "rule": getattr(mod, "RULE", ""),
        "samples": m["samples"] or [],
        "monitors": dict(sorted(m["mon"].items())),
        "notes": m["notes"],
        "shards": nshards,
        "inet_sockets_opened": m["inet_sockets"],
        "known_findings_seen": {
            k: {"count": v["count"], "witness": v["witness"]}
            for k, v in m["known"].items()
        },
        "stopped_by_time_cap": m["capped"],
    }
    coverage["code_reached"] = reach
    if silent and not args.replay and dumps:
        # pure-data modules (types/exceptions) have no functions to enter for some checks
        coverage["anchor_files_never_entered"] = silent
    if m["exhaustive"] is not None:
        coverage["exhaustive"] = bool(m["exhaustive"]) and not m["capped"]
    if m["inconclusive"]:
        coverage["inconclusive"] = m["inconclusive"]
    payload = {
        "property_id": prop,
        "tier": tier,
        "seed": seed,
        "level": getattr(mod, "LEVEL", "exploration"),
        "coverage": coverage,
        "assumptions": list(getattr(mod, "ASSUMPTIONS", [])),
        "wall_s": round(wall, 2),
        "violations": m["n_violations"],
        "repo": os.environ.get("VERIF_REPO", "/repo"),
    }
    if not args.replay and not os.environ.get("VERIF_NO_EVIDENCE"):
        core.write_evidence(prop, payload)

    for mech, slot in sorted(m["known"].items()):
        print(
            "KNOWN-FINDING: property=%s %s: %s (%d cases this run)"
            % (prop, mech, slot["detail"], slot["count"])
        )
    rc = 0
    if m["n_violations"]:
        seen = set()
        for v in m["violations"]:
            path = core.write_replay(prop, v)
            if path in seen:
                continue
            seen.add(path)
            print("VIOLATION property=%s replay=%s" % (prop, path))
            print(
                "  mechanism=%s detail=%s"
                % (v.get("mechanism"), str(v.get("detail"))[:600])
            )
        rc = 1
    elif m["inconclusive"]:
        for reason in m["inconclusive"][:5]:
            print("INCONCLUSIVE property=%s reason=%s" % (prop, reason))
        rc = 2
    print(
        "%s tier=%s seed=%d evaluations=%d distinct_nontrivial=%d violations=%d "
        "known=%s wall=%.1fs"
        % (
            prop,
            tier,
            seed,
            m["evaluations"],
            distinct,
            m["n_violations"],
            {k: v["count"] for k, v in m["known"].items()},
            wall,
        )
    )
    return rc


if __name__ == "__main__":
    sys.exit(main())
