"""
C01 - walk exactness: every instance below each root exactly once, nothing
else, ascending for one root, self-terminating, independent of root order.
"""

from . import walkcommon as wc
from .. import gen, rig

PROP = "C01"
LEVEL = "exploration"
SHARDS = {"quick": 8, "thorough": 16}
TIME_CAP = {"quick": 50, "thorough": 600}
N_CASES = {"quick": 700, "thorough": 40000}
RULE = (
    "Generated agent databases (1..5 disjoint roots, sibling/nested/adjacent, "
    "subtree sizes from {0,0,1,2,3,5,9,40}, sub-identifiers at 127/128/16383/"
    "16384/2^32-1, neighbours before/between/after, optional instance AT a root, "
    "optional nothing after the last root) walked through Client.walk/multiwalk "
    "and PyWrapper.walk/multiwalk against the reference agent in every root "
    "permutation (n<=4) for v2c and the v3 levels. Oracle: yielded multiset == "
    "{k in DB: k strictly below a root} (+root instance optional), values equal, "
    "ascending for one root, request budget 4*(instances+roots)+8. A case is "
    "non-trivial when >=1 instance lies below a root and >=2 requests were sent; "
    "distinct by (subtree sizes, ordered roots, level, api)."
    " Deterministic boundary walks run first: the zero-length root (whole MIB view), 256/257/"
    "300 roots (quick: 257), instance OIDs of 126/127/128 sub-identifiers, sub-identifier val"
    "ues at the BER and 32-bit boundaries, decimal-prefix sibling roots. Walks of one client "
    "pass the SAME root list object every time; a list that differs after a walk is a violati"
    "on."
    ' The documented fetcher= argument (a pacing wrapper around the public multigetnext): sin'
    'gle roots exact, several roots for termination and soundness. sorted() of the yielded Va'
    'rBinds reproduces the OID order. One process walks a subtree and then a subtree containi'
    'ng it (and the reverse) on the same and on new clients.'
)
ASSUMPTIONS = [
    "reference agent vf/agent.py is RFC 3416 conformant (self-checked codec, every witness carries the wire log)",
    "Client(sender=...) seam is the only transport (audit hook counts inet sockets: must be 0)",
]
REQUIRED_MONITORS = ("walks_ok_exact",)


def classify(problems, feats, nroots):
    kinds = {k for k, _ in problems}
    if nroots > 1 and kinds == {"lost"} and feats.get("eomv_before_data"):
        return "eomv-before-data"
    return None


def run_one(R, level, roots, db, api, label, w=None):
    outcome, ys, w = wc.run_walk(level, db, roots, api, w=w)
    if label == "reuse":
        R.mon["walks_on_a_reused_client"] += 1
    feats = wc.wire_features(w.agent)
    truth = gen.truth_below(db, roots)
    nreq = len(w.seam.requests)
    case = {
        "level": level,
        "api": api,
        "roots": [list(r) for r in roots],
        "db": wc.enc_db(db),
    }
    if label == "nested":
        case["label"] = label
    sizes = tuple(sum(1 for k in db if gen.strictly_below(k, r)) for r in roots)
    fp = ("c01", sizes, tuple(roots), level, api)
    nontrivial = bool(truth) and nreq >= 2
    R.case(fp, nontrivial, sample={"label": label, **case, "yielded": len(ys), "requests": nreq} if len(db) < 8 else None)
    R.mon["requests_seen_at_seam"] += nreq
    R.mon["walks_" + api] += 1
    for k, v in feats.items():
        R.mon["wire_" + k] += v
    if outcome == "budget":
        R.violation(case, "walk did not end within %d requests" % w.seam.budget, None)
        return
    if outcome != "ok":
        R.violation(case, "walk raised %r against a conformant agent" % (outcome,), None)
        return
    problems = wc.judge_py(ys, db, roots) if api.startswith("py") else wc.judge(ys, db, roots)
    if api == "fetcherwalk" and len(roots) > 1:
        # what a fetcher of the caller's own owes the walk is not specified: with several
        # roots only termination (above), and nothing foreign, doubled or altered, is judged
        problems = [p for p in problems if p[0] != "lost"]
        R.mon["own_fetcher_multiroot_walks_terminated"] += 1
    if not problems and len(roots) == 1 and not api.startswith("py") and len(ys) > 1:
        # the result objects themselves: where they can be compared at all, their order is
        # the OID order the walk delivered them in (sorted(), bisect, max() on results)
        rows = list(getattr(w, "last_rows", []))
        try:
            resorted = sorted(reversed(rows))
        except Exception:  # noqa: BLE001 - not comparable: nothing to judge
            resorted = None
            R.mon["result_rows_not_comparable"] += 1
        if resorted is not None:
            if [rig.oid_t(vb.oid) for vb in resorted] != [o for o, _ in ys]:
                problems.append(("order", "sorted() of the yielded VarBinds is not in OID order: %r" % ([str(vb.oid) for vb in resorted][:6],)))
            else:
                R.mon["result_rows_sort_in_oid_order"] += 1
    if problems:
        mech = classify(problems, feats, len(roots))
        R.violation(
            case,
            "%s; truth=%d yielded=%d" % (rig.jsonable(problems[:3]), len(truth), len(ys)),
            mech,
        )
    else:
        R.mon["walks_ok_exact"] += 1
        R.mon["instances_yielded"] += len(ys)


def nested_roots(R):
    """One process walks a subtree and later a subtree that CONTAINS it (and the other way
    round), over the same instances, on the same client and on a new one."""
    nested_db = {(1, 3, 11, c, r): ("int", 10 * c + r) for c in (4, 5, 6) for r in (1, 2, 3)}
    nested_db[(1, 3, 12, 0)] = ("int", 0)
    for first, second in (([(1, 3, 11, 5)], [(1, 3, 11)]), ([(1, 3, 11)], [(1, 3, 11, 5)]), ([(1, 3, 11, 5), (1, 3, 11, 6)], [(1, 3, 11)]), ([(1, 3, 11, 4)], [(1, 3, 11, 5), (1, 3, 11, 4), (1, 3, 11, 6)])):
        for level in ("v2c", "v3-md5"):
            w = rig.World(level, nested_db)
            run_one(R, level, first, nested_db, "multiwalk", "nested", w=w)
            run_one(R, level, second, nested_db, "multiwalk", "nested", w=w)
            run_one(R, level, second, nested_db, "multiwalk", "nested")
            run_one(R, level, first, nested_db, "pymultiwalk", "nested")
            R.mon["nested_root_walks_in_one_process"] += 4


def run(R):
    n = N_CASES[R.tier]
    levels = rig.LEVEL_CYCLE_V2
    if R.shard == 1 % R.nshards:
        boundary(R)
    for i in range(n):
        if not R.mine(i):
            continue
        if not R.time_left():
            break
        rng = R.rng(i)
        roots, db = wc.gen_case(rng)
        orders = wc.root_orders(rng, roots)
        for j, order in enumerate(orders):
            level = levels[(i + j) % len(levels)]
            run_one(R, level, order, db, "multiwalk", "gen")
            if j == 0 and len(order) > 1 and i % 3 == 0:
                run_one(R, levels[(i + 1) % len(levels)], order, db, "pymultiwalk", "gen")
        if i % 5 == 2:
            # ONE client walks several times in a row (same roots twice, another order,
            # the pythonic wrapper): every walk must be exact on its own
            lv = levels[i % len(levels)]
            w = rig.World(lv, db)
            for api, order in (("multiwalk", orders[0]), ("multiwalk", orders[0]), ("multiwalk", orders[-1]), ("pymultiwalk", orders[0]), ("multiwalk", orders[0])):
                run_one(R, lv, order, db, api, "reuse", w=w)
            # abandoned walks (consumer stops early / transport times out mid-walk),
            # each followed by a complete walk that must be exact
            for how, n, api in (("stop", 1, "multiwalk"), ("timeout", 1, "multiwalk"), ("stop", 2, "pymultiwalk"), ("timeout", 2, "multiwalk")):
                wc.abort_walk(w, orders[0], api, None, how, n)
                R.mon["walks_abandoned_midway"] += 1
                run_one(R, lv, orders[0], db, api, "reuse", w=w)
        if len(roots) == 1:
            run_one(R, levels[i % len(levels)], roots, db, "walk", "gen")
            run_one(R, levels[(i + 2) % len(levels)], roots, db, "pywalk", "gen")
    # fixed corner cases, every level
    if R.shard == 0:
        corner = [
            ([(1, 3, 2), (1, 3, 1)], {(1, 3, 1, 1): ("int", 1)}),
            ([(1, 3, 1), (1, 3, 2)], {(1, 3, 1, 1): ("int", 1)}),
            ([(1, 3, 1)], {}),
            ([(1, 3, 1)], {(1, 3, 1): ("int", 5)}),
            ([(1, 3, 1), (1, 3, 2)], {(1, 3, 1, 1): ("int", 1), (1, 3, 2, 1): ("int", 2), (1, 3, 2, 2): ("int", 3)}),
            ([(1, 3, 5), (1, 3, 6), (1, 3, 7)], {(1, 3, 5, 1): ("int", 1), (1, 3, 7, 1): ("int", 2), (1, 3, 7, 2): ("int", 3), (1, 3, 8, 0): ("int", 9)}),
        ]
        nested_roots(R)
        for roots, db in corner:
            for level in rig.V2_LEVELS:
                run_one(R, level, roots, db, "multiwalk", "corner")
            run_one(R, "v2c", roots, db, "fetcherwalk", "corner")
            R.mon["own_fetcher_walks"] += 1


def boundary(R):
    for label, roots, db in wc.boundary_cases():
        many = len(roots) > 200
        if many and R.tier == "quick" and label != "257-roots":
            continue
        for level in ("v2c", "v3-md5"):
            if many and R.tier == "quick" and level != "v2c":
                continue
            run_one(R, level, roots, db, "multiwalk", label)
            if len(roots) > 1:
                run_one(R, level, list(reversed(roots)), db, "pymultiwalk" if many else "multiwalk", label)
                if not many:
                    run_one(R, level, roots, db, "pymultiwalk", label)
            else:
                run_one(R, level, roots, db, "walk", label)
                run_one(R, level, roots, db, "pywalk", label)
            if not many:
                run_one(R, level, roots, db, "fetcherwalk", label)
                R.mon["own_fetcher_walks"] += 1
            R.mon["boundary_walks"] += 1


def replay(R, v):
    case = v["case"]
    if case.get("label") == "nested":
        nested_roots(R)
        return
    run_one(
        R,
        case["level"],
        [tuple(r) for r in case["roots"]],
        wc.dec_db(case["db"]),
        case["api"],
        "replay",
    )
