"""
C02 - a bulk walk returns exactly what the GETNEXT walk returns: the ground
truth of the agent database, each instance once, for every bulk size and
every conformant truncation policy of the agent.
"""

import itertools

from . import walkcommon as wc
from .. import gen, rig

PROP = "C02"
LEVEL = "exploration"
SHARDS = {"quick": 4, "thorough": 16}
TIME_CAP = {"quick": 50, "thorough": 600}
N_CASES = {"quick": 500, "thorough": 30000}
BULKS = (1, 2, 3, 5, 10, 25)
POLICIES = ("full", "stop_eomv", "fewer", "partial_last")
RULE = (
    "C01's database/root generator crossed with bulk sizes {1,2,3,5,10,25,random<=60} "
    "and agent truncation policies {full, stop after an all-endOfMibView row, fewer "
    "repetitions, partial last row; partial first row as its own labelled class}. "
    "Client.bulkwalk / PyWrapper.bulkwalk through the seam against the reference agent; "
    "oracle: result == database ground truth == Client.multiwalk on an identical fresh "
    "agent, each instance once. Non-trivial: >=1 instance below a root and >=1 GETBULK "
    "seen by the agent; distinct by (subtree sizes, ordered roots, bulk, policy, level)."
    " The boundary walks of C01 (empty root, 257 roots, 128-arc OIDs, arc boundaries, sibling"
    " roots) run as bulk walks with five (bulk, policy) pairs; the same root list object is p"
    "assed on every walk of a client and must come back unchanged."
    " Further policies cut only the k-th GETBULK answer below a full row (k = 1..3) or let on"
    "e binding through per answer; for the authenticated levels the device reboots before req"
    "uest 2, 3 or 5 of a two-root bulk walk, which still has to deliver everything."
    " Policies max_bindings:2/3/4 (a persistent limit), three adjacent columns in every listi"
    "ng order, walks of more than 4096 instances."
    " One walk over two adjacent 26000-row columns (52000 instances)."
    ' bulk_size left at its default for every boundary case and for 1..40 roots. After five p'
    'olling cycles in which every GETBULK of a client was refused as tooBig, the bulk walk on'
    ' that client is exact again.'
)
ASSUMPTIONS = [
    "reference agent's GETBULK (vf/agent.py) follows RFC 3416 4.2.3; all truncation policies used are conformant",
    "Client(sender=...) seam is the only transport (audit hook: 0 inet sockets)",
]
REQUIRED_MONITORS = ("bulkwalks_ok_exact", "wire_getbulk")


def classify(problems, feats, nroots):
    kinds = {k for k, _ in problems}
    if nroots < 2 or kinds != {"lost"}:
        return None
    if feats.get("partial_first_row"):
        return "bulk-partial-first-row"
    if feats.get("dup_oid_in_response"):
        return "bulk-dup-collapse"
    if feats.get("eomv_before_data"):
        return "bulk-eomv-truncation"
    if feats.get("partial_row"):
        return "bulk-partial-row"
    return None


def after_toobig(R):
    """The path after failures: for five polling cycles the device refuses every GETBULK as
    tooBig (the caller handles the error each time); afterwards the device is its ordinary
    self again and a bulk walk on the SAME client is as exact as ever."""
    from .. import ber as _ber

    rng = R.rng("after-toobig")
    for j in range(4):
        roots, db = wc.gen_case(rng)
        for level in ("v2c", "v3-md5"):
            w = rig.World(level, db)
            for bulk in (10, 1, 2, None):
                w.agent.pdu_hook = lambda req, resp: dict(resp, error_status=1, error_index=0, varbinds=[]) if req["type"] == _ber.PDU_GETBULK else resp
                for _cycle in range(5):
                    wc.run_walk(level, db, roots, "bulkwalk", bulk=bulk, w=w)  # fails; its outcome is C08's matter
                w.agent.pdu_hook = None
                run_one(R, level, roots, db, "bulkwalk", bulk, "full", 0, "after-toobig", w=w)
                run_one(R, level, roots, db, "pybulkwalk", bulk, "full", 0, "after-toobig", w=w)
                R.mon["bulkwalks_after_refused_ones"] += 2


def run_one(R, level, roots, db, api, bulk, policy, pseed, label, w=None):
    outcome, ys, w = wc.run_walk(level, db, roots, api, bulk=bulk, policy=policy, policy_seed=pseed, w=w)
    if label == "reuse":
        R.mon["bulkwalks_on_a_reused_client"] += 1
    feats = wc.wire_features(w.agent)
    truth = gen.truth_below(db, roots)
    case = {
        "level": level,
        "api": api,
        "bulk": bulk,
        "policy": policy,
        "policy_seed": pseed,
        "roots": [list(r) for r in roots],
        "db": wc.enc_db(db),
    }
    if label == "after-toobig":
        case["label"] = label
    sizes = tuple(sum(1 for k in db if gen.strictly_below(k, r)) for r in roots)
    fp = ("c02", sizes, tuple(roots), level, api, bulk, policy)
    nontrivial = bool(truth) and feats.get("getbulk", 0) >= 1
    R.case(fp, nontrivial, sample={"label": label, **case, "yielded": len(ys)} if len(db) < 7 else None)
    R.mon["requests_seen_at_seam"] += len(w.seam.requests)
    R.mon["policy_" + policy] += 1
    for k, v in feats.items():
        R.mon["wire_" + k] += v
    if outcome == "budget":
        R.violation(case, "bulk walk did not end within %d requests" % w.seam.budget, None)
        return None
    if outcome != "ok":
        R.violation(case, "bulk walk raised %r against a conformant agent" % (outcome,), None)
        return None
    problems = wc.judge_py(ys, db, roots) if api.startswith("py") else wc.judge(ys, db, roots)
    if problems:
        R.violation(
            case,
            "%s; truth=%d yielded=%d" % (rig.jsonable(problems[:3]), len(truth), len(ys)),
            classify(problems, feats, len(roots)),
        )
        return None
    R.mon["bulkwalks_ok_exact"] += 1
    R.mon["instances_yielded"] += len(ys)
    return ys


def compare_with_getnext(R, level, roots, db, ys, case_hint):
    outcome, ref, _ = wc.run_walk(level, db, roots, "multiwalk")
    if outcome != "ok":
        return  # C01's business
    if wc.judge(ref, db, roots):
        return  # the GETNEXT walk itself is off: C01's business
    R.mon["compared_with_multiwalk"] += 1
    rootset = set(roots)  # an instance AT a root may or may not be reported
    ys = [y for y in ys if y[0] not in rootset]
    ref = [y for y in ref if y[0] not in rootset]
    if sorted(ys) != sorted(ref):
        R.violation(case_hint, "bulkwalk and multiwalk disagree: %d vs %d bindings" % (len(ys), len(ref)), None)


def run(R):
    n = N_CASES[R.tier]
    for i in range(n):
        if not R.mine(i):
            continue
        if not R.time_left():
            break
        rng = R.rng(i)
        roots, db = wc.gen_case(rng)
        orders = wc.root_orders(rng, roots, max_perm_n=3, sample=4)
        for j, order in enumerate(orders):
            level = rig.LEVEL_CYCLE_V2[(i + j) % len(rig.LEVEL_CYCLE_V2)]
            bulk = BULKS[(i + j) % len(BULKS)] if rng.random() < 0.85 else rng.randint(1, 60)
            policy = POLICIES[(i // 2 + j) % len(POLICIES)]
            api = "pybulkwalk" if (i + j) % 7 == 0 else "bulkwalk"
            ys = run_one(R, level, order, db, api, bulk, policy, i * 31 + j, "gen")
            if ys is not None and api == "bulkwalk" and j == 0:
                compare_with_getnext(
                    R, level, order, db, ys,
                    {"level": level, "roots": [list(r) for r in order], "db": wc.enc_db(db), "bulk": bulk, "policy": policy, "policy_seed": i * 31 + j, "api": api},
                )
        if i % 5 == 3:
            import random as _random

            from .. import agent as _agent

            lv = rig.LEVEL_CYCLE_V2[i % len(rig.LEVEL_CYCLE_V2)]
            w = rig.World(lv, db, agent_kwargs={"bulk_policy": _agent.BulkPolicy("fewer", _random.Random(i))})
            for api, order, bulk in (("bulkwalk", orders[0], 3), ("bulkwalk", orders[0], 3), ("bulkwalk", orders[-1], 10), ("pybulkwalk", orders[0], 2), ("bulkwalk", orders[0], 1)):
                run_one(R, lv, order, db, api, bulk, "fewer", i, "reuse", w=w)
            for how, n, api, bulk in (("stop", 1, "bulkwalk", 3), ("timeout", 1, "bulkwalk", 2), ("stop", 2, "pybulkwalk", 3), ("timeout", 2, "pybulkwalk", 2)):
                wc.abort_walk(w, orders[0], api, bulk, how, n)
                R.mon["bulkwalks_abandoned_midway"] += 1
                run_one(R, lv, orders[0], db, api, bulk, "fewer", i, "reuse", w=w)
        if len(roots) > 1 and i % 4 == 0:
            # the labelled class: partial FIRST row
            run_one(R, "v2c", roots, db, "bulkwalk", BULKS[i % len(BULKS)], "partial_first", i, "partial-first")
    if R.shard == 1 % R.nshards or R.nshards == 1:
        # more than 1000 instances delivered, several roots (one of them short and directly
        # in front of another, one empty), agent answering with partial rows
        big = {}
        for r in range(1, 700):
            big[(1, 3, 9, 2, 1, r)] = ("int", r)
            big[(1, 3, 9, 4, 1, r)] = ("int", -r)
        big[(1, 3, 9, 3, 1, 1)] = ("int", 0)
        big[(1, 3, 9, 5, 0)] = ("int", 5)
        # more than 4096 instances delivered by one walk: two long columns with a few
        # unrequested objects between them (and directly adjacent ones)
        long_db = {}
        for r in range(1, 2201):
            long_db[(1, 3, 10, 2, 1, r)] = ("int", r)
            long_db[(1, 3, 10, 4, 1, r)] = ("int", -r)
            if r <= 150:
                long_db[(1, 3, 10, 5, 1, r)] = ("int", 7)
        for x in (1, 2, 3):
            long_db[(1, 3, 10, 3, x)] = ("int", 0)
        for roots, bulk in (([(1, 3, 10, 2), (1, 3, 10, 4)], 50), ([(1, 3, 10, 4), (1, 3, 10, 2)], 25), ([(1, 3, 10, 4), (1, 3, 10, 5), (1, 3, 10, 2)], 40)):
            run_one(R, "v2c", roots, long_db, "bulkwalk", bulk, "full", 1, "long")
            R.mon["walks_of_more_than_4096_instances"] += 1
        for roots in ([(1, 3, 9, 2), (1, 3, 9, 4), (1, 3, 9, 1)], [(1, 3, 9, 2), (1, 3, 9, 4), (1, 3, 9, 3)], [(1, 3, 9, 4), (1, 3, 9, 3), (1, 3, 9, 2)]):
            for policy, bulk in (("partial_first", 20), ("partial_last", 25), ("fewer", 10)):
                run_one(R, "v2c", roots, big, "bulkwalk", bulk, policy, 99, "big")
                R.mon["big_walks"] += 1
    if R.shard == 2 % R.nshards:
        for label, roots, db in wc.boundary_cases():
            many = len(roots) > 200
            if many and R.tier == "quick" and label != "257-roots":
                continue
            for bulk, policy in ((1, "full"), (2, "partial_last"), (3, "fewer"), (10, "full"), (2, "partial_first")):
                if many and R.tier == "quick" and bulk != 2:
                    continue
                ys = run_one(R, "v2c", roots, db, "bulkwalk", bulk, policy, 5, label)
                R.mon["boundary_bulkwalks"] += 1
                if ys is not None and bulk == 3:
                    run_one(R, "v3-sha1-priv", roots, db, "pybulkwalk", bulk, policy, 5, label)
            # ... and with bulk_size left at its default
            run_one(R, "v2c", roots, db, "bulkwalk", None, "full", 5, label)
            R.mon["bulkwalks_with_the_default_bulk_size"] += 1
        # the default bulk size with 1..40 roots (raw client and wrapper)
        for n in (1, 2, 5, 9, 10, 11, 12, 20, 40):
            roots = [(1, 3, 6, 1, 4, 1, 88, r) for r in range(1, n + 1)]
            db = {r + (i,): ("int", i) for r in roots for i in range(1, 4)}
            db[(1, 3, 6, 1, 4, 1, 89, 0)] = ("int", 0)
            for api, policy in (("bulkwalk", "full"), ("pybulkwalk", "full"), ("bulkwalk", "fewer")):
                run_one(R, "v2c", roots, db, api, None, policy, 7, "default-bulk-size")
                R.mon["bulkwalks_with_the_default_bulk_size"] += 1
    if R.shard == 0:
        after_toobig(R)
    if R.shard == 3 % R.nshards:
        # responses cut below one row only ONCE (later ones complete), a buffer that holds
        # one binding per response, and a device that reboots in the middle of the walk
        rng = R.rng("once")
        for j in range(12 if R.tier == "quick" else 120):
            roots, db = wc.gen_case(rng)
            if len(roots) < 2:
                continue
            for policy in ("partial_first_once:1", "partial_first_once:2", "partial_first_once:3", "one_binding", "max_bindings:2", "max_bindings:3"):
                for bulk in (2, 3, 10):
                    orders = [list(p) for p in itertools.permutations(roots)] if len(roots) <= 3 else [roots, list(reversed(roots))]
                    for order in orders:
                        run_one(R, "v2c", order, db, "bulkwalk", bulk, policy, j, "cut-once")
                        R.mon["cut_once_walks"] += 1
        cols = {(1, 3, 6, 1, 4, 1, 78, 1, c, i): ("int", c * 100 + i) for c in (5, 6, 7) for i in range(1, 6)}
        for order in itertools.permutations([(1, 3, 6, 1, 4, 1, 78, 1, 5), (1, 3, 6, 1, 4, 1, 78, 1, 6), (1, 3, 6, 1, 4, 1, 78, 1, 7)]):
            for policy in ("max_bindings:2", "max_bindings:1", "partial_first_once:2", "max_bindings:4"):
                for bulk in (2, 3, 10):
                    run_one(R, "v2c", list(order), cols, "bulkwalk", bulk, policy, 3, "adjacent-columns")
                    R.mon["cut_once_walks"] += 1
        big = {(1, 3, 6, 1, 4, 1, 77, 1, i): ("int", i) for i in range(1, 31)}
        big.update({(1, 3, 6, 1, 4, 1, 77, 2, i): ("str", b"x" * i) for i in range(1, 12)})
        for level in rig.AUTH_LEVELS:
            for reboot_at in (2, 3, 5):
                for bulk in (3, 10):
                    outcome, ys, w = wc.run_walk(level, big, [(1, 3, 6, 1, 4, 1, 77, 1), (1, 3, 6, 1, 4, 1, 77, 2)], "bulkwalk", bulk=bulk, policy="full", reboot_at=reboot_at)
                    case = {"level": level, "api": "bulkwalk", "bulk": bulk, "policy": "full", "policy_seed": 0, "roots": [[1, 3, 6, 1, 4, 1, 77, 1], [1, 3, 6, 1, 4, 1, 77, 2]], "db": wc.enc_db(big), "reboot_at": reboot_at}
                    R.case(("c02-reboot", level, bulk, reboot_at), True)
                    R.mon["walks_with_a_reboot_midway"] += 1
                    if outcome != "ok":
                        R.violation(case, "the device rebooted before request %d of the bulk walk; the walk gave %r (a GETNEXT walk re-synchronises and carries on)" % (reboot_at, outcome), None)
                    elif wc.judge(ys, big, case["roots"] and [tuple(r) for r in case["roots"]]):
                        R.violation(case, "bulk walk across a reboot: %r" % (rig.jsonable(wc.judge(ys, big, [tuple(r) for r in case["roots"]])[:3]),), None)
    if R.shard == 0:
        # more than 50000 instances in ONE walk over two adjacent columns
        huge = {}
        for r in range(1, 26001):
            huge[(1, 3, 11, 2, 1, r)] = ("int", r)
            huge[(1, 3, 11, 3, 1, r)] = ("int", -r)
        run_one(R, "v2c", [(1, 3, 11, 2), (1, 3, 11, 3)], huge, "bulkwalk", 100, "full", 1, "huge")
        R.mon["walks_of_more_than_50000_instances"] += 1
        del huge
    if R.shard == 0:
        corner = [
            ([(1, 3, 1), (1, 3, 2)], {(1, 3, 2, 1): ("int", 1), (1, 3, 2, 2): ("int", 2), (1, 3, 3, 0): ("int", 3)}),
            ([(1, 3, 2), (1, 3, 1)], {(1, 3, 1, 1): ("int", 1)}),
            ([(1, 3, 1), (1, 3, 2)], {(1, 3, 1, 1): ("int", 1), (1, 3, 2, 1): ("int", 2), (1, 3, 2, 2): ("int", 3), (1, 3, 2, 3): ("int", 4)}),
            ([(1, 3, 1)], {(1, 3, 1, i): ("int", i) for i in range(1, 30)}),
        ]
        for roots, db in corner:
            for bulk in (1, 2, 10):
                for policy in POLICIES:
                    run_one(R, "v2c", roots, db, "bulkwalk", bulk, policy, 7, "corner")


def replay(R, v):
    c = v["case"]
    if c.get("label") == "after-toobig":
        after_toobig(R)
        return
    if c.get("reboot_at"):
        outcome, ys, w = wc.run_walk(c["level"], wc.dec_db(c["db"]), [tuple(r) for r in c["roots"]], "bulkwalk", bulk=c["bulk"], policy="full", reboot_at=c["reboot_at"])
        if outcome != "ok" or wc.judge(ys, wc.dec_db(c["db"]), [tuple(r) for r in c["roots"]]):
            R.violation(c, "bulk walk across a reboot: %r" % (outcome,), None)
        R.evaluations += 1
        return
    run_one(
        R, c["level"], [tuple(r) for r in c["roots"]], wc.dec_db(c["db"]), c["api"],
        c["bulk"], c["policy"], c["policy_seed"], "replay",
    )
