"""
C03 - walks always terminate and never re-request, whatever the agent
answers.  The agent is exactly the statement's model: a function from
(requested OID, repetition index) to returned OID or endOfMibView over a
finite OID universe; all functions are enumerated for small universes.
"""

import itertools

from .. import rig  # noqa: F401
from .. import ber
from ..rig import OID, Seam, drive, drive_agen, oid_t
from puresnmp import V2C, Client, PyWrapper
from puresnmp.exc import FaultySNMPImplementation

PROP = "C03"
LEVEL = "fault_enumeration"
SHARDS = {"quick": 4, "thorough": 16}
TIME_CAP = {"quick": 55, "thorough": 900}
RULE = (
    "Scripted agents f:(requested OID, repetition)->OID|endOfMibView over universes U "
    "(|U| in 2..4 exhaustively: every function from {root}+U to U+{endOfMibView}; "
    "|U|<=8 and repetition-dependent functions sampled; named families: same OID, constant, "
    "decreasing, 2/3-cycles, out-and-back, endOfMibView at every point) x operations "
    "{walk strict, walk warn, multiwalk(2 roots), bulkwalk b in {1,2,3,10}, table, bulktable}. "
    "Monitors on the seam log: request budget = distinct OIDs revealed + roots + 2; no OID "
    "requested in two requests; first-repetition non-advance => FaultySNMPImplementation "
    "(warn: normal end with everything received before). Distinct = distinct observed "
    "(operation, request/response trace); non-trivial = >=2 requests or a faulty answer."
    " Further named families: two roots with endOfMibView in the column listed first while th"
    "e other column stalls; sub-identifiers beyond 32 bits (2^32, 2^32+4, 2^63, 2^64+1, 2^70)"
    " that go back to an arc which is larger modulo 2^32; the lenient mode is passed as a str"
    "ing equal to, not identical with, the constant."
    " A second agent answers one chosen OID with an error-status for ever (v1 and v2c; status"
    " 1/2/5/13/19, error-index 0/1/5, bindings echoed or absent) or cuts one GETBULK answer t"
    "o 0..2 bindings: every operation ends within 2*(instances+roots)+4 requests and never re"
    "peats the refused request."
    " One client runs 320 lenient walks against differently faulty devices."
    ' The zero-length OID as answer at every point of a chain and as the root walked from. Af'
    'ter a walk / bulk walk / table that timed out at request k or was abandoned, four walk-s'
    'tyle operations on the same client end within the usual bound.'
)
ASSUMPTIONS = [
    "every requested column is answered (truncation belongs to C02)",
    "protocol level v2c only: the property is about PDU contents, security layers are covered by C07-C12",
]
REQUIRED_MONITORS = ("ops_run", "faulty_first_rep_seen", "clean_chains_exact")

ROOT = (1, 3, 5)
BEFORE = (1, 3, 4, 1, 1)
IN = [(1, 3, 5, 1, 1), (1, 3, 5, 1, 2), (1, 3, 5, 2, 1), (1, 3, 5, 2, 2), (1, 3, 5, 7, 1), (1, 3, 5, 9, 9)]
AFTER = (1, 3, 6, 1, 1)
ROOT2 = (1, 3, 7)
IN2 = [(1, 3, 7, 1, 1), (1, 3, 7, 1, 2)]

UNIVERSES = {
    2: [(IN[0], IN[1]), (IN[0], AFTER), (BEFORE, IN[0])],
    3: [(IN[0], IN[1], AFTER), (BEFORE, IN[0], IN[1]), (IN[0], IN[1], IN[2])],
    4: [(BEFORE, IN[0], IN[1], AFTER), (IN[0], IN[1], IN[2], AFTER)],
}
OPS = [
    ("walk", "strict", None),
    ("walk", "warn", None),
    ("bulkwalk", "strict", 1),
    ("bulkwalk", "strict", 2),
    ("bulkwalk", "strict", 3),
    ("bulkwalk", "strict", 10),
    ("table", "strict", None),
    ("bulktable", "strict", 3),
    ("pywalk", "warn", None),
]


EMPTY = ("<empty response>",)


class ScriptedAgent:
    """f(requested_oid, repetition_index) -> oid tuple | None (endOfMibView) | EMPTY
    (the whole response carries no bindings at all)."""

    def __init__(self, f, value_kind="int", trunc=0):
        self.f = f
        # the model fixes which OID comes back; the VALUE bound to it may be anything,
        # also an exception marker on a non-advancing OID
        self.value = {"int": ("int", 1), "nsi": ("nsi", None), "nso": ("nso", None), "str": ("str", b"")}[value_kind]
        # bulk: drop this many trailing bindings (a capped / truncated response whose
        # last repetition is incomplete)
        self.trunc = trunc
        self.revealed = set()
        self.trace = []  # (pdu type, [requested], [answered])
        self.requested_log = []
        self.first_rep_fault = False
        self.later_rep_fault = False

    def handle(self, data):
        msg = ber.decode_message(data)
        pdu = msg["pdu"]
        req = [tuple(o) for o, _ in pdu["varbinds"]]
        self.requested_log.append(req)
        out = []
        # the whole response is empty when the function says so for any requested OID
        reps = max(pdu["error_index"], 0) if pdu["type"] == ber.PDU_GETBULK else 1
        if any(self.f(o, r) == EMPTY for o in req for r in range(min(reps, 1) or 1)):
            self.empty_responses = getattr(self, "empty_responses", 0) + 1
            self.trace.append((pdu["type"], tuple(req), ()))
            return ber.enc_community_message(1, msg["community"], {"type": ber.PDU_RESPONSE, "request_id": pdu["request_id"], "error_status": 0, "error_index": 0, "varbinds": []})
        if pdu["type"] == ber.PDU_GETNEXT:
            for oid in req:
                nxt = self.f(oid, 0)
                if nxt is None or nxt == EMPTY:
                    out.append((oid, ("eomv", None)))
                else:
                    out.append((nxt, self.value))
                    self.revealed.add(nxt)
                    if not oid < nxt:
                        self.first_rep_fault = True
        elif pdu["type"] == ber.PDU_GETBULK:
            cur = list(req)
            for rep in range(max(pdu["error_index"], 0)):
                for j in range(len(cur)):
                    # not sticky: a repetition-dependent function may return an OID
                    # again after an endOfMibView in the same column (e.g. an agent
                    # that wraps around to the start of its MIB)
                    nxt = self.f(cur[j], rep)
                    if nxt is None or nxt == EMPTY:
                        out.append((cur[j], ("eomv", None)))
                    else:
                        out.append((nxt, self.value))
                        self.revealed.add(nxt)
                        if not cur[j] < nxt:
                            if rep == 0:
                                self.first_rep_fault = True
                            else:
                                self.later_rep_fault = True
                        cur[j] = nxt
            if self.trunc and len(req) > 1 and len(out) > len(req):
                keep = max(len(req), len(out) - self.trunc)
                # bindings that are cut off were never revealed / never faulty
                out = out[:keep]
        else:
            return None
        self.trace.append((pdu["type"], tuple(req), tuple((o, v[0]) for o, v in out)))
        resp = {
            "type": ber.PDU_RESPONSE,
            "request_id": pdu["request_id"],
            "error_status": 0,
            "error_index": 0,
            "varbinds": out,
        }
        return ber.enc_community_message(1, msg["community"], resp)


def chain_oracle(f, root):
    """GETNEXT semantics: (yields, ending) ending in {"normal", "faulty"}."""
    ys = []
    x = root
    for _ in range(200):
        y = f(x, 0)
        if y is None:
            return ys, "normal"
        if not x < y:
            return ys, "faulty"
        if not (len(y) > len(root) and y[: len(root)] == root):
            return ys, "normal"
        ys.append(y)
        x = y
    return ys, "endless"


def run_op(R, fdesc, f, op, mode, bulk, roots=(ROOT,), state=None):
    """state: [client, seam] of an earlier run_op - the SAME client runs the operation
    again against a fresh agent following the same function."""
    agent = ScriptedAgent(f, fdesc.get("value_kind", "int"), fdesc.get("trunc", 0))
    if state:
        client, seam = state
        seam.reset()
        R.mon["ops_repeated_on_the_same_client"] += 1
    else:
        seam = Seam(agent.handle)
        client = Client("192.0.2.1", V2C("public"), sender=seam)
        if state is not None:
            state[:] = [client, seam]

    def budgeted(data):
        # request budget: distinct OIDs revealed so far + roots + 2
        if seam.calls > len(agent.revealed) + len(roots) + 2:
            raise rig.BudgetExceeded(seam.calls)
        return agent.handle(data)

    seam.responder = budgeted
    root = roots[0]
    try:
        if op == "walk":
            res = ("ok", drive_agen(client.walk(OID(root), errors=rig.lenient() if mode == "warn" else "".join(("str", "ict"))), limit=500))
        elif op == "pywalk":
            res = ("ok", drive_agen(PyWrapper(client).walk(rig.oid_s(root), errors=rig.lenient() if mode == "warn" else "".join(("str", "ict"))), limit=500))
        elif op == "multiwalk":
            res = ("ok", drive_agen(client.multiwalk([OID(r) for r in roots], errors=rig.lenient() if mode == "warn" else "".join(("str", "ict"))), limit=500))
        elif op == "bulkwalk":
            res = ("ok", drive_agen(client.bulkwalk([OID(r) for r in roots], bulk_size=bulk), limit=500))
        elif op == "table":
            res = ("ok", drive(client.table(OID(root))))
        elif op == "bulktable":
            res = ("ok", drive(client.bulktable(OID(root[:-1] if False else root), bulk_size=bulk)))
        else:
            raise ValueError(op)
    except rig.BudgetExceeded:
        res = ("budget", None)
    except Exception as exc:  # noqa: BLE001
        res = ("exc", exc)

    case = {"f": fdesc, "op": op, "mode": mode, "bulk": bulk, "roots": [list(r) for r in roots]}
    trace_fp = (op, mode, bulk, tuple(agent.trace))
    nontrivial = len(agent.trace) >= 2 or agent.first_rep_fault or agent.later_rep_fault
    R.case(trace_fp, nontrivial, sample={**case, "requests": len(agent.trace), "outcome": res[0] if res[0] != "exc" else repr(res[1])} if R.evaluations % 997 == 0 else None)
    R.mon["ops_run"] += 1
    R.mon["requests_seen_at_seam"] += len(agent.trace)
    if agent.first_rep_fault:
        R.mon["faulty_first_rep_seen"] += 1
    if agent.later_rep_fault:
        R.mon["faulty_later_rep_seen"] += 1
    if fdesc.get("trunc"):
        # the agent cut bindings off after evaluating the function: which fault the
        # client could still see is not pinned; termination and no re-request are
        agent.later_rep_fault = agent.later_rep_fault or agent.first_rep_fault
    is_bulk = op in ("bulkwalk", "bulktable")
    mech = None
    if is_bulk and (agent.first_rep_fault or agent.later_rep_fault):
        mech = "bulk-no-progress"

    if res[0] == "budget":
        R.violation(case, "request budget exhausted after %d requests (%d OIDs revealed): the walk does not terminate" % (seam.calls, len(agent.revealed)), mech)
        return
    # never re-request
    flat = [o for req in agent.requested_log for o in set(req)]
    rereq = sorted({o for o in flat if flat.count(o) > 1})
    if rereq:
        R.violation(case, "OIDs requested in more than one request: %r" % (rereq[:4],), mech)
        return
    if fdesc.get("value_kind") in ("nsi", "nso") and res[0] == "exc" and not isinstance(res[1], FaultySNMPImplementation):
        # exception markers as VALUES of get-next answers are outside every standard; the
        # statement pins termination, no re-request and the reaction to non-advancing OIDs,
        # not which exception such values provoke (x690 markers are neither equal nor
        # orderable, sorting them raises TypeError).  The operation ended: accepted.
        R.mon["marker_values_ended_with_other_exception"] += 1
        return
    if getattr(agent, "empty_responses", 0):
        # a response without any binding: a GETNEXT-based operation refuses it (count
        # mismatch), a bulk operation may take it for a truncated answer; what matters
        # here is that the operation ENDED and never re-requested (checked above)
        R.mon["empty_response_cases"] += 1
        return
    faulty_exc = res[0] == "exc" and isinstance(res[1], FaultySNMPImplementation)
    if agent.first_rep_fault and not fdesc.get("trunc"):
        if mode == "warn":
            if res[0] != "ok":
                R.violation(case, "lenient mode: expected a normal end, got %r" % (res[1],), mech)
                return
        elif not faulty_exc:
            R.violation(
                case,
                "agent answered a non-advancing OID for a requested OID; expected FaultySNMPImplementation, got %s"
                % ("normal end" if res[0] == "ok" else repr(res[1])),
                mech,
            )
            return
        R.mon["faulty_first_rep_handled"] += 1
    elif agent.later_rep_fault:
        if res[0] == "exc" and not faulty_exc and op not in ("table", "bulktable"):
            R.violation(case, "unexpected exception %r" % (res[1],), mech)
            return
    else:
        if res[0] == "exc" and op not in ("table", "bulktable"):
            R.violation(case, "advancing agent, yet the walk raised %r" % (res[1],), None)
            return
    # contents
    if op in ("walk", "pywalk") and res[0] == "ok":
        ys, ending = chain_oracle(f, root)
        got = [oid_t(vb.oid) for vb in res[1]]
        if got != ys:
            R.violation(case, "yielded %r, expected %r (%s chain)" % (got[:6], ys[:6], ending), None)
            return
        R.mon["clean_chains_exact"] += 1
    elif op in ("bulkwalk", "multiwalk") and res[0] == "ok":
        got = [oid_t(vb.oid) for vb in res[1]]
        inroot = {o for o in agent.revealed if any(len(o) > len(r) and o[: len(r)] == r for r in roots)}
        if len(set(got)) != len(got) or not set(got) <= inroot:
            R.violation(case, "yielded %r is not a duplicate-free subset of the revealed in-root OIDs" % (got[:8],), None)
            return
        if len(roots) == 1 and not agent.first_rep_fault and not agent.later_rep_fault and not fdesc.get("repdep"):
            ys, ending = chain_oracle(f, root)
            if ending == "normal" and got != ys:
                R.violation(case, "bulk walk yielded %r, expected %r" % (got[:6], ys[:6]), None)
                return
            R.mon["clean_chains_exact"] += 1


def table_f(mapping):
    def f(oid, rep):
        return mapping.get(oid)

    return f


def enumerate_universe(R, universe, counter, ops=OPS):
    domain = [ROOT] + list(universe)
    codomain = list(universe) + [None]
    for values in itertools.product(codomain, repeat=len(domain)):
        idx = counter[0]
        counter[0] += 1
        if not R.mine(idx):
            continue
        if not R.time_left():
            return False
        mapping = dict(zip(domain, values))
        fdesc = {"kind": "table", "map": [[list(k), list(v) if v else None] for k, v in mapping.items()]}
        f = table_f(mapping)
        for op, mode, bulk in ops:
            run_op(R, fdesc, f, op, mode, bulk)
    return True


def named_families():
    fams = []
    ins = IN[:4]
    # same OID
    fams.append(("same", {ROOT: ins[0], ins[0]: ins[0]}))
    fams.append(("same-root", {ROOT: ROOT}))
    # constant
    fams.append(("constant", {ROOT: ins[1], ins[0]: ins[1], ins[1]: ins[1], ins[2]: ins[1]}))
    # decreasing
    fams.append(("decreasing", {ROOT: ins[2], ins[2]: ins[1], ins[1]: ins[0], ins[0]: BEFORE}))
    # 2-cycle / 3-cycle
    fams.append(("2-cycle", {ROOT: ins[0], ins[0]: ins[1], ins[1]: ins[0]}))
    fams.append(("3-cycle", {ROOT: ins[0], ins[0]: ins[1], ins[1]: ins[2], ins[2]: ins[0]}))
    # out-and-back
    fams.append(("out-and-back", {ROOT: ins[0], ins[0]: AFTER, AFTER: ins[1], ins[1]: ins[2]}))
    # endOfMibView at every point of a good chain
    chain = [ROOT] + ins
    for cut in range(len(chain)):
        m = {chain[i]: chain[i + 1] for i in range(cut)}
        fams.append(("eomv-at-%d" % cut, m))
    good = {chain[i]: chain[i + 1] for i in range(len(chain) - 1)}
    good[chain[-1]] = AFTER
    fams.append(("good-then-out", good))
    # a response with no bindings at all at every point of a good chain
    for cut in range(len(chain)):
        m = {chain[i]: chain[i + 1] for i in range(cut)}
        m[chain[cut]] = EMPTY
        fams.append(("empty-response-at-%d" % cut, m))
    # sub-identifiers beyond 32 bits (illegal in the SMI, but BER can carry them and the
    # statement says "whatever the agent answers"): going back from such an arc to a
    # small one that is larger modulo 2^32 / 2^64, staying on it, and going up to it
    for huge in (2**32, 2**32 + 4, 2**63, 2**64 + 1, 2**70):
        h = ROOT + (huge,)
        for back in (ROOT + (huge % 2**32 + 3,), ROOT + (7,), h, ROOT + (huge - 1,)):
            fams.append(("huge-arc-%d-then-%s" % (huge, back[-1]), {ROOT: h, h: back, back: None} if back != h else {ROOT: h, h: h}))
        fams.append(("up-to-huge-arc-%d" % huge, {ROOT: ins[0], ins[0]: h, h: ROOT + (huge + 1,), ROOT + (huge + 1,): AFTER}))
    return fams


def empty_oid_families():
    """The zero-length OID (06 00): some agents answer with it (wrapping around at the end
    of their MIB, echoing an empty name), and it is the root a caller gives to walk
    everything.  It is an OID like any other: it never lies beyond the requested one, and
    every OID lies below it.  (name, roots, mapping)"""
    ins = IN[:3]
    chain = [ROOT] + ins
    fams = []
    for cut in range(len(chain)):
        m = {chain[i]: chain[i + 1] for i in range(cut)}
        m[chain[cut]] = ()
        fams.append(("empty-oid-at-%d" % cut, (ROOT,), m))
    fams.append(("empty-root-echo", ((),), {(): ()}))
    fams.append(("empty-root-wrap", ((),), {(): ins[0], ins[0]: ins[1], ins[1]: ()}))
    fams.append(("empty-root-wrap-later", ((),), {(): BEFORE, BEFORE: ins[0], ins[0]: ins[1], ins[1]: AFTER, AFTER: ()}))
    fams.append(("empty-root-good", ((),), {(): ins[0], ins[0]: ins[1], ins[1]: None}))
    return fams


EMPTY_OID_OPS = (("walk", "strict", None), ("walk", "warn", None), ("pywalk", "warn", None), ("pywalk", "strict", None), ("multiwalk", "strict", None), ("bulkwalk", "strict", 1), ("bulkwalk", "strict", 2), ("bulkwalk", "strict", 3))


def run_empty_oid_families(R):
    for name, roots, mapping in empty_oid_families():
        fdesc = {"kind": "empty-oid", "name": name}
        for op, mode, bulk in EMPTY_OID_OPS:
            state = []
            run_op(R, fdesc, table_f(mapping), op, mode, bulk, roots=roots, state=state)
            run_op(R, fdesc, table_f(mapping), op, mode, bulk, roots=roots, state=state)
        R.mon["empty_oid_families"] += 1


def repdep_families():
    """Named repetition-dependent behaviours: (name, f)."""
    ins = IN[:4]
    succ = {ROOT: ins[0], ins[0]: ins[1], ins[1]: ins[2], ins[2]: ins[3]}
    fams = []

    def wrap(k, target):
        def f(oid, rep):
            if rep < k:
                return succ.get(oid)
            if rep == k:
                return None  # endOfMibView in the middle of the response ...
            return target  # ... and then data again (wrap-around)
        return f

    for k in (0, 1, 2):
        fams.append(("eomv-at-rep-%d-then-wrap-to-first" % k, wrap(k, ins[0])))
        fams.append(("eomv-at-rep-%d-then-wrap-to-second" % k, wrap(k, ins[1])))
        fams.append(("eomv-at-rep-%d-then-jump-outside" % k, wrap(k, AFTER)))
        fams.append(("eomv-at-rep-%d-then-before" % k, wrap(k, BEFORE)))

    def alternate(oid, rep):
        return succ.get(oid) if rep % 2 == 0 else None

    fams.append(("eomv-on-odd-repetitions", alternate))
    return fams


def sampled(R, n):
    """|U| <= 8 and repetition-dependent functions, plus two roots."""
    uni = [BEFORE] + IN + [AFTER] + IN2
    for i in range(n):
        if not R.mine(i):
            continue
        if not R.time_left():
            return
        rng = R.rng("s", i)
        k = rng.randint(3, 8)
        U = sorted(rng.sample(uni, k))
        two = rng.random() < 0.35
        roots = (ROOT, ROOT2) if two else (ROOT,)
        dom = list(roots) + U
        advancing_bias = rng.random()
        table = {}
        for rep in range(3):
            for d in dom:
                if rng.random() < advancing_bias:
                    bigger = [u for u in U if u > d]
                    table[(d, rep)] = min(bigger) if bigger and rng.random() < 0.8 else (rng.choice(bigger) if bigger else None)
                else:
                    table[(d, rep)] = rng.choice(U + [None])
        repdep = rng.random() < 0.4

        def f(oid, rep, table=table, repdep=repdep):
            return table.get((oid, min(rep, 2) if repdep else 0))

        fdesc = {"kind": "sampled", "index": i, "seed": R.seed, "U": [list(u) for u in U], "repdep": repdep}
        if two and rng.random() < 0.5:
            fdesc["trunc"] = rng.choice((1, 1, 2, 3))
        if rng.random() < 0.3:
            fdesc["value_kind"] = rng.choice(("nsi", "nso", "str"))
        if two:
            for op, mode, bulk in (("multiwalk", "strict", None), ("multiwalk", "warn", None), ("bulkwalk", "strict", 2), ("bulkwalk", "strict", 10)):
                run_op(R, fdesc, f, op, mode, bulk, roots=roots)
        else:
            for op, mode, bulk in OPS:
                run_op(R, fdesc, f, op, mode, bulk)


def run(R):
    counter = [0]
    if R.shard == 1 % R.nshards:
        run_empty_oid_families(R)
    if R.shard == 2 % R.nshards:
        after_transport_failures(R)
    for name, mapping in named_families():
        if R.shard == 0:
            fdesc = {"kind": "named", "name": name, "map": [[list(k), list(v) if v else None] for k, v in mapping.items()]}
            for op, mode, bulk in OPS:
                # twice on the same client: the second run must end the same way
                state = []
                run_op(R, fdesc, table_f(mapping), op, mode, bulk, state=state)
                run_op(R, dict(fdesc, second_run=True), table_f(mapping), op, mode, bulk, state=state)
                # the same OIDs bound to other values (exception markers, empty string)
                for vk in ("nsi", "nso", "str"):
                    run_op(R, dict(fdesc, value_kind=vk), table_f(mapping), op, mode, bulk)
            R.mon["named_families"] += 1
    for name, f in repdep_families():
        if R.shard == 0:
            fdesc = {"kind": "named-repdep", "name": name, "repdep": True}
            for op, mode, bulk in OPS:
                run_op(R, fdesc, f, op, mode, bulk)
            R.mon["named_families"] += 1
    if R.shard == 0:
        # two roots, GETBULK answers cut inside the last repetition, and the binding that
        # does not advance sits in that incomplete repetition
        ins = IN[:4]
        succ0 = {ROOT: ins[1], ins[0]: ins[1], ins[1]: ins[2], ins[2]: ins[3], ROOT2: IN2[0], IN2[0]: IN2[1]}
        for back_to in (ins[0], ins[1], ROOT):
            def f2(oid, rep, back_to=back_to):
                if rep == 0:
                    return succ0.get(oid)
                if oid[: len(ROOT)] == ROOT:
                    return back_to  # later repetitions of the first column go BACK
                return succ0.get(oid)
            for trunc in (1, 3):
                for bulk in (2, 3):
                    fdesc = {"kind": "named-two-root-truncated", "name": "back-to-%s" % (back_to,), "repdep": True, "trunc": trunc, "back_to": list(back_to)}
                    run_op(R, fdesc, f2, "bulkwalk", "strict", bulk, roots=(ROOT, ROOT2))
                    R.mon["two_root_truncated_families"] += 1
    if R.shard == 0:
        # two roots: the column listed first is at endOfMibView in the very response in
        # which the other column does not advance (the check of one binding must not
        # depend on what its neighbours carry)
        for first, second in ((ROOT, ROOT2), (ROOT2, ROOT)):
            inside = IN2 if second == ROOT2 else IN
            for target in (second, BEFORE, inside[0]):
                for depth in (0, 1):
                    # depth 0: the fault is in the first response; 1: one good step first
                    mapping = {first: None, second: target if depth == 0 else inside[0], inside[0]: target if depth == 1 else inside[1], inside[1]: None}
                    if depth == 1:
                        mapping[first] = (IN if first == ROOT else IN2)[0]
                        mapping[(IN if first == ROOT else IN2)[0]] = None
                    fdesc = {"kind": "named", "name": "eomv-first-column-other-stalls-%d" % depth, "map": [[list(k), list(v) if v else None] for k, v in mapping.items()]}
                    for op, mode, bulk in (("multiwalk", "strict", None), ("multiwalk", "warn", None), ("bulkwalk", "strict", 1), ("bulkwalk", "strict", 2)):
                        run_op(R, fdesc, table_f(mapping), op, mode, bulk, roots=(first, second))
                        R.mon["two_root_eomv_first_families"] += 1
    if R.shard == 1 % R.nshards:
        error_and_cut_families(R)
    if R.shard == 2 % R.nshards:
        many_aborted_walks(R)
    complete = True
    sizes = (2, 3) if R.tier == "quick" else (2, 3, 4)
    for k in sizes:
        for universe in UNIVERSES[k]:
            if not enumerate_universe(R, universe, counter):
                complete = False
    if R.tier == "quick":
        # |U| = 4: a deterministic stride through the 3125 functions of each universe
        for universe in UNIVERSES[4]:
            domain = [ROOT] + list(universe)
            codomain = list(universe) + [None]
            for n, values in enumerate(itertools.product(codomain, repeat=len(domain))):
                if n % 11 != R.seed % 11:
                    continue
                idx = counter[0]
                counter[0] += 1
                if not R.mine(idx) or not R.time_left():
                    continue
                mapping = dict(zip(domain, values))
                fdesc = {"kind": "table", "map": [[list(a), list(b) if b else None] for a, b in mapping.items()]}
                for op, mode, bulk in OPS[:6]:
                    run_op(R, fdesc, table_f(mapping), op, mode, bulk)
    R.notes["exhaustive_subspace"] = "all functions {root}+U -> U+{endOfMibView} for |U| in %r (3 universes each)" % (list(sizes),)
    if complete and not R.capped:
        R.mon["exhaustive_subspace_completed_shards"] += 1
    sampled(R, 400 if R.tier == "quick" else 20000)


class ErrAgent:
    """A conformant v1/v2c agent over a small sorted instance list that answers every
    request naming ``err_oid`` with an error-status (persistently, as a real agent at
    the end of its view or with a broken object does), and may cut ONE GETBULK
    response below a full row."""

    def __init__(self, version, instances, err_oid=None, status=2, index=0, echo=True, cut=None):
        self.version, self.inst = version, sorted(instances)
        self.err_oid, self.status, self.index, self.echo, self.cut = err_oid, status, index, echo, cut
        self.requests = []
        self.bulk_responses = 0

    def nxt(self, oid):
        return next((k for k in self.inst if k > oid), None)

    def handle(self, data):
        msg = ber.decode_message(data)
        pdu = msg["pdu"]
        req = [tuple(o) for o, _ in pdu["varbinds"]]
        self.requests.append(tuple(req))

        def answer(status, index, vbs):
            return ber.enc_community_message(self.version, msg["community"], {"type": ber.PDU_RESPONSE, "request_id": pdu["request_id"], "error_status": status, "error_index": index, "varbinds": vbs})

        if self.err_oid is not None and self.err_oid in req:
            return answer(self.status, self.index, [(o, ("null", None)) for o in req] if self.echo else [])
        if pdu["type"] == ber.PDU_GETNEXT:
            out = []
            for i, o in enumerate(req):
                n = self.nxt(o)
                if n is None:
                    if self.version == 0:
                        return answer(2, i + 1, [(x, ("null", None)) for x in req])
                    out.append((o, ("eomv", None)))
                else:
                    out.append((n, ("int", 1)))
            return answer(0, 0, out)
        if pdu["type"] == ber.PDU_GETBULK:
            cur, out = list(req), []
            for _ in range(max(pdu["error_index"], 0)):
                for j in range(len(cur)):
                    n = self.nxt(cur[j])
                    if n is None:
                        out.append((cur[j], ("eomv", None)))
                    else:
                        out.append((n, ("int", 1)))
                        cur[j] = n
            self.bulk_responses += 1
            if self.cut and self.bulk_responses == self.cut[0]:
                out = out[: self.cut[1]]
            return answer(0, 0, out)
        return None


def error_and_cut_families(R):
    """Walks against an agent that answers one OID with an error-status for ever, or cuts
    one GETBULK answer below a row: whatever the outcome (the error raised, a normal end),
    the operation ENDS within the request bound and never repeats a request."""
    from puresnmp.credentials import V1

    a = [ROOT + (1, i) for i in (1, 2, 3)]
    b = [ROOT2 + (1, i) for i in (1, 2)]
    inst = a + b + [AFTER + (9,)]
    for version, cred in ((0, V1("public")), (1, V2C("public"))):
        for err_oid in (ROOT, a[0], a[2], b[1], inst[-1]):
            for status, index, echo in ((2, 0, True), (2, 1, True), (2, 5, True), (2, 0, False), (5, 0, True), (5, 1, True), (1, 0, False), (13, 2, True), (19, 0, True)):
                for op, mode, bulk, roots in (("walk", "strict", None, (ROOT,)), ("walk", "warn", None, (ROOT,)), ("multiwalk", "strict", None, (ROOT, ROOT2)), ("multiwalk", "warn", None, (ROOT2, ROOT)),
                                              ("bulkwalk", "strict", 2, (ROOT, ROOT2)), ("table", "strict", None, (ROOT,)), ("bulktable", "strict", 3, (ROOT,))):
                    if version == 0 and op in ("bulkwalk", "bulktable"):
                        continue
                    run_err_op(R, version, cred, inst, dict(err_oid=err_oid, status=status, index=index, echo=echo), op, mode, bulk, roots)
    # one GETBULK answer cut below a full row, every later one complete
    for nresp in (1, 2, 3):
        for keep in (0, 1, 2):
            for bulk in (1, 2, 3):
                for roots in ((ROOT, ROOT2), (ROOT2, ROOT), (ROOT, ROOT2, AFTER)):
                    run_err_op(R, 1, V2C("public"), inst, dict(cut=(nresp, keep)), "bulkwalk", "strict", bulk, roots)


def after_transport_failures(R):
    """The path after a failure: a walk whose k-th request is never answered (the sender's
    Timeout) or is abandoned by its consumer; the NEXT walk-style operation on the same
    client, against a well-behaved device, ends after the usual number of requests."""
    chain_oids = [ROOT + (1, i) for i in range(1, 6)]
    chain = {ROOT: chain_oids[0]}
    for a, b in zip(chain_oids, chain_oids[1:]):
        chain[a] = b
    chain[chain_oids[-1]] = AFTER
    for how in ("timeout", "abandon"):
        for k in (1, 2, 4):
            for first in ("walk", "bulkwalk", "table"):
                agent = ScriptedAgent(table_f(chain))
                seam = Seam(agent.handle)
                client = Client("192.0.2.1", V2C("public"), sender=seam)
                seen = {"n": 0}

                def failing(data, k=k, seen=seen, agent=agent):
                    seen["n"] += 1
                    return None if seen["n"] == k else agent.handle(data)

                case = {"f": {"kind": "after-failure", "how": how, "k": k, "first": first}, "op": first, "mode": "strict", "bulk": 2, "roots": [list(ROOT)]}
                try:
                    if how == "timeout":
                        seam.responder = failing
                        if first == "walk":
                            drive_agen(client.walk(OID(ROOT)), limit=50)
                        elif first == "bulkwalk":
                            drive_agen(client.bulkwalk([OID(ROOT)], bulk_size=2), limit=50)
                        else:
                            drive(client.table(OID(ROOT)))
                    else:
                        agen = client.walk(OID(ROOT)) if first != "bulkwalk" else client.bulkwalk([OID(ROOT)], bulk_size=2)
                        drive_agen(agen, limit=k)  # the consumer stops after k items
                except (Exception, rig.BudgetExceeded):  # noqa: BLE001 - the failing call's own outcome is not judged here
                    pass
                seam.responder = agent.handle
                for op, bulk in (("walk", None), ("bulkwalk", 2), ("table", None), ("walk", None)):
                    seam.reset(budget=len(chain_oids) + 4)
                    R.evaluations += 1
                    try:
                        if op == "walk":
                            got = [oid_t(vb.oid) for vb in drive_agen(client.walk(OID(ROOT)), limit=50)]
                        elif op == "bulkwalk":
                            got = [oid_t(vb.oid) for vb in drive_agen(client.bulkwalk([OID(ROOT)], bulk_size=bulk), limit=50)]
                        else:
                            got = sorted(ROOT + (1,) + tuple(int(x) for x in row["0"].split(".")) for row in drive(client.table(OID(ROOT))))
                        res = ("ok", got)
                    except rig.BudgetExceeded:
                        res = ("budget", None)
                    except Exception as exc:  # noqa: BLE001
                        res = ("exc", exc)
                    if res[0] != "ok":
                        R.violation(dict(case, op=op, bulk=bulk), "after a walk that %s, the next %s on the same client did not end normally: %r" % ("timed out at request %d" % k if how == "timeout" else "was abandoned after %d items" % k, op, res[1] if res[0] == "exc" else "request budget exhausted"), None)
                        return
                    if op != "table" and got != chain_oids:
                        R.violation(dict(case, op=op, bulk=bulk), "after a failed walk the next %s yielded %r, the device holds %r" % (op, got, chain_oids), None)
                        return
                    R.mon["walks_after_a_failed_walk_ok"] += 1
    R.case(("c03-after-failure",), True)


def many_aborted_walks(R):
    """One long-lived client runs lenient walks against faulty devices hundreds of times
    (each fault a different one): walk number 300 still ends normally with what was
    received."""
    seam = Seam(lambda data: None)
    client = Client("192.0.2.1", V2C("public"), sender=seam)
    for j in range(320):
        stuck = ROOT + (1, j + 1)
        chain = {ROOT: ROOT + (1, 0), ROOT + (1, 0): stuck, stuck: stuck if j % 2 else ROOT + (1, 0)}
        agent = ScriptedAgent(table_f(chain))
        seam.responder = agent.handle
        seam.reset(budget=20)
        try:
            res = ("ok", drive_agen(client.walk(OID(ROOT), errors=rig.lenient()), limit=50))
        except rig.BudgetExceeded:
            res = ("budget", None)
        except Exception as exc:  # noqa: BLE001
            res = ("exc", exc)
        R.evaluations += 1
        case = {"f": {"kind": "many-aborted", "j": j}, "op": "walk", "mode": "warn", "bulk": None, "roots": [list(ROOT)]}
        if res[0] != "ok":
            R.violation(case, "lenient walk number %d on one client (each against another faulty device) did not end normally: %r" % (j + 1, res[1] if res[0] == "exc" else "request budget"), None)
            return
        got = [oid_t(vb.oid) for vb in res[1]]
        if got != [ROOT + (1, 0), stuck]:
            R.violation(case, "lenient walk number %d delivered %r, the device revealed %r before it stalled" % (j + 1, got, [ROOT + (1, 0), stuck]), None)
            return
    R.mon["long_lived_lenient_client_ok"] += 1


def run_err_op(R, version, cred, inst, akw, op, mode, bulk, roots):
    agent = ErrAgent(version, inst, **akw)
    seam = Seam(agent.handle)
    client = Client("192.0.2.1", cred, sender=seam)
    bound = 2 * (len(inst) + len(roots)) + 4

    def budgeted(data):
        if seam.calls > bound:
            raise rig.BudgetExceeded(seam.calls)
        return agent.handle(data)

    seam.responder = budgeted
    errs = rig.lenient() if mode == "warn" else "".join(("str", "ict"))
    try:
        if op == "walk":
            res = ("ok", drive_agen(client.walk(OID(roots[0]), errors=errs), limit=100))
        elif op == "multiwalk":
            res = ("ok", drive_agen(client.multiwalk([OID(r) for r in roots], errors=errs), limit=100))
        elif op == "bulkwalk":
            res = ("ok", drive_agen(client.bulkwalk([OID(r) for r in roots], bulk_size=bulk), limit=100))
        elif op == "table":
            res = ("ok", drive(client.table(OID(roots[0] + (1,)))))
        else:
            res = ("ok", drive(client.bulktable(OID(roots[0]), bulk_size=bulk)))
    except rig.BudgetExceeded:
        res = ("budget", None)
    except Exception as exc:  # noqa: BLE001
        res = ("exc", exc)
    case = {"f": {"kind": "err-agent", "version": version, "akw": rig.jsonable(akw)}, "op": op, "mode": mode, "bulk": bulk, "roots": [list(r) for r in roots]}
    R.case(("c03-err", version, op, mode, bulk, tuple(agent.requests)), len(agent.requests) >= 1)
    R.mon["error_and_cut_ops_run"] += 1
    if res[0] == "budget":
        R.violation(case, "more than %d requests against an agent holding %d instances (%s): the operation does not end" % (bound, len(inst), "answering %r with error-status %d for ever" % (akw.get("err_oid"), akw.get("status")) if "err_oid" in akw else "one GETBULK answer cut to %d bindings" % akw["cut"][1]), None)
        return
    if "err_oid" in akw:
        # a request that was answered with an error-status must not be sent again
        errreqs = [r for r in agent.requests if akw["err_oid"] in r]
        if len(errreqs) != len(set(errreqs)):
            R.violation(case, "the request answered with error-status %d was sent again: %r" % (akw["status"], errreqs[:3]), None)
            return
    R.mon["error_and_cut_ops_ended"] += 1


def replay(R, v):
    c = v["case"]
    fd = c["f"]
    if fd["kind"] == "many-aborted":
        many_aborted_walks(R)
        return
    if fd["kind"] == "after-failure":
        after_transport_failures(R)
        return
    if fd["kind"] == "err-agent":
        from puresnmp.credentials import V1

        a = [ROOT + (1, i) for i in (1, 2, 3)]
        inst = a + [ROOT2 + (1, i) for i in (1, 2)] + [AFTER + (9,)]
        akw = {k: (tuple(x) if isinstance(x, list) else x) for k, x in fd["akw"].items()}
        run_err_op(R, fd["version"], V1("public") if fd["version"] == 0 else V2C("public"), inst, akw, c["op"], c["mode"], c["bulk"], tuple(tuple(r) for r in c["roots"]))
        return
    if fd["kind"] in ("table", "named"):
        mapping = {tuple(k): (tuple(val) if val else None) for k, val in fd["map"]}
        state = []
        if fd.get("second_run"):
            run_op(R, fd, table_f(mapping), c["op"], c["mode"], c["bulk"], roots=tuple(tuple(r) for r in c["roots"]), state=state)
        run_op(R, fd, table_f(mapping), c["op"], c["mode"], c["bulk"], roots=tuple(tuple(r) for r in c["roots"]), state=state)
    elif fd["kind"] == "named-two-root-truncated":
        ins = IN[:4]
        succ0 = {ROOT: ins[1], ins[0]: ins[1], ins[1]: ins[2], ins[2]: ins[3], ROOT2: IN2[0], IN2[0]: IN2[1]}
        back_to = tuple(fd["back_to"])

        def f2(oid, rep):
            if rep == 0:
                return succ0.get(oid)
            if oid[: len(ROOT)] == ROOT:
                return back_to
            return succ0.get(oid)

        run_op(R, fd, f2, c["op"], c["mode"], c["bulk"], roots=tuple(tuple(r) for r in c["roots"]))
    elif fd["kind"] == "empty-oid":
        name, roots, mapping = next(x for x in empty_oid_families() if x[0] == fd["name"])
        state = []
        run_op(R, fd, table_f(mapping), c["op"], c["mode"], c["bulk"], roots=roots, state=state)
        run_op(R, fd, table_f(mapping), c["op"], c["mode"], c["bulk"], roots=roots, state=state)
    elif fd["kind"] == "named-repdep":
        f = dict(repdep_families())[fd["name"]]
        run_op(R, fd, f, c["op"], c["mode"], c["bulk"], roots=tuple(tuple(r) for r in c["roots"]))
    else:
        R.inconclusive("sampled cases are replayed by re-running the check with VERIF_SEED=%s" % fd.get("seed"))
