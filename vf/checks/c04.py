"""
C04 - GET / GETNEXT / SET / GETBULK results are exactly the agent's answers,
in order; missing single objects raise NoSuchOID; responses with a wrong
number of bindings are refused with SnmpError.

Two independent references per case: the reference semantics evaluated on the
database by this module, and the bindings the agent actually put on the wire
(the agent's record, decoded by the independent codec).
"""

import bisect

from .. import rig  # noqa: F401
from .. import gen
from ..rig import OID, World, drive, oid_t, to_tuple
from puresnmp.exc import NoSuchOID, SnmpError
from puresnmp.util import BulkResult

PROP = "C04"
LEVEL = "exploration"
SHARDS = {"quick": 4, "thorough": 16}
TIME_CAP = {"quick": 50, "thorough": 600}
N_CASES = {"quick": 12000, "thorough": 600000}
RULE = (
    "Random agent databases holding every value type; OID lists of length 1..8 with duplicates, "
    "absent objects (noSuchObject / noSuchInstance) and objects at the end of the view; "
    "operations get, multiget, getnext, multigetnext, set, multiset, bulkget (non-repeater/"
    "repeater splits, max-repetitions 0..12) on all seven levels (v1, v2c, v3 noAuth/auth/priv "
    "x MD5/SHA-1). Oracle: result == reference semantics on the database == bindings on the "
    "wire (independently decoded). Count-fault class: the agent adds a binding for a further "
    "OID or drops one (get/getnext/set), or answers GETBULK with more than n+m*r bindings => "
    "SnmpError; shorter GETBULK answers are accepted. Sequence class: get, get, set, get, "
    "foreign change at the agent, get, multiget on ONE client within the same second (equal "
    "request ids and datagrams): every answer is the agent's current value. Non-trivial: the agent was asked and "
    "answered; distinct by (operation, level, per-OID status pattern, fault)."
    " The GETBULK on the wire must name exactly the caller's OIDs in order (duplicates includ"
    "ed, generated deliberately); bulkget / multiget / multigetnext get list objects the chec"
    "k keeps: unchanged after the call, and the same call repeated with the same objects give"
    "s the same request and answer; answers of exactly 65505/65506/65507 octets on every leve"
    "l; clients switched from the other community version with the same community string."
    " Value OBJECTS taken from get/multiget responses are written back through set()/multiset"
    "(); every counter that can travel in a Report (usmStats, snmpMPDStats, snmpUnavailableCo"
    "ntexts, snmpUnknownContexts) is also read as an ordinary object."
    " The agent confirms a SET with ANOTHER value (set/multiset return what was confirmed); o"
    "ne client per level asks 550 different questions and then the first 120 again."
    " After a client's first call failed on the way (reply lost, garbage, caller gave up with"
    " wait_for), get / multiget / getnext / set on it return the agent's answers."
)
ASSUMPTIONS = [
    "reference agent conformant (vf/agent.py); count faults are injected at PDU level by the agent's pdu_hook and travel inside authentic (v3: signed/encrypted) responses",
    "get-next at the end of the MIB view: NoSuchOID is demanded for the single get-next (statement: 'a single get or get-next of a missing object raises NoSuchOID'); for multi-get-next the positions before the first end-of-view OID are checked strictly, the tail may be absent",
    "clock frozen (C07 covers clock movement)",
]
REQUIRED_MONITORS = ("ok_multiget", "ok_getnext", "ok_set", "ok_bulkget", "ok_sequences", "count_fault_refused", "nosuchoid_raised", "max_datagram_ops")

OPS = ("get", "multiget", "getnext", "multigetnext", "set", "multiset", "bulkget", "countfault", "bulkfault", "sequence")


def gen_db(rng):
    db = {}
    base = (1, 3, 6, 1, 2, 1)
    ngroups = rng.randint(1, 4)
    for g in range(ngroups):
        grp = base + (rng.choice((1, 2, 4, 25, 127, 128, 40000)),)
        for _ in range(rng.randint(1, 6)):
            oid = grp + tuple(rng.choice(gen.SUBID_POOL[:12]) if rng.random() < 0.4 else rng.randint(0, 9) for _ in range(rng.randint(1, 3)))
            db[oid] = gen.gen_value(rng)
    if rng.random() < 0.2:
        # the agent's own usmStats counters are ordinary readable objects
        for x in rng.sample(range(1, 7), rng.randint(1, 3)):
            db[(1, 3, 6, 1, 6, 3, 15, 1, 1, x, 0)] = ("c32", rng.randint(0, 1000))
    return db


def semantics_get(db, keys, oid):
    if oid in db:
        return db[oid]
    prefix = oid[:-1]
    for key in keys:
        if key[: len(prefix)] == prefix:
            return ("nsi", None)
    return ("nso", None)


def successor(keys, oid):
    i = bisect.bisect_right(keys, oid)
    return keys[i] if i < len(keys) else None


def pick_oids(rng, db, n, allow_end=True):
    keys = sorted(db)
    out = []
    for _ in range(n):
        r = rng.random()
        if r < 0.55 and keys:
            out.append(rng.choice(keys))
        elif r < 0.7 and keys:
            k = rng.choice(keys)
            out.append(k[:-1] + (k[-1] + 1000003,))  # sibling instance that does not exist
        elif r < 0.8:
            out.append((1, 3, 6, 1, 77, rng.randint(1, 9), 0))  # unknown object
        elif r < 0.9 and keys:
            k = rng.choice(keys)
            out.append(k[: rng.randint(2, len(k))])  # a prefix (getnext food)
        elif allow_end:
            out.append((2, 25, rng.randint(1, 5)))  # beyond everything
        elif keys:
            out.append(rng.choice(keys))
        else:
            out.append((1, 3, 6, 1, 77, 1, 0))
        if out and rng.random() < 0.15:
            out[-1] = rng.choice(out)  # duplicate
    return out


def wire_response(w):
    """Bindings of the last response the agent put on the wire."""
    for rec in reversed(w.agent.requests):
        if "response_pdu" in rec:
            return rec["response_pdu"]["varbinds"], rec
    return None, None


def last_request(w):
    for rec in reversed(w.agent.requests):
        if "pdu" in rec:
            return rec["pdu"]
    return None


def _case(level, op, db, **kw):
    from .walkcommon import enc_db

    c = {"level": level, "op": op, "db": enc_db(db)}
    c.update(rig.jsonable(kw))
    return c


def status_pattern(db, keys, oids):
    pat = []
    for o in oids:
        if o in db:
            pat.append("p")
        else:
            pat.append(semantics_get(db, keys, o)[0])
    return "".join(x[0] if x != "nso" else "o" for x in pat)


def run_case(R, level, op, db, args, label="gen"):
    v1 = level == "v1"
    keys = sorted(db)
    via = tuple(args["via"]) if args.get("via") else None
    w = World(level, db, via=via)
    run_case.last_world = w
    if via:
        R.mon["clients_switched_from_another_family"] += 1
    w.prime()
    w.seam.budget = 6 if not args.get("prelude") else 400
    c = w.client
    case = _case(level, op, db, args=args)
    R.mon["ops_" + op] += 1

    def viol(detail, mech=None):
        R.violation(case, detail, mech)

    try:
        if op in ("get", "multiget"):
            oids = [tuple(o) for o in args["oids"]]
            exp = [semantics_get(db, keys, o) for o in oids]
            missing = [e[0] in ("nso", "nsi") for e in exp]
            fp = ("c04", op, level, status_pattern(db, keys, oids))
            if op == "get":
                res = rig.outcome(lambda: drive(c.get(OID(oids[0]))))
            else:
                arg = [OID(o) for o in oids]
                res = rig.outcome(lambda: drive(c.multiget(arg)))
                if [oid_t(o) for o in arg] != oids:
                    viol("multiget changed the caller's list: %r -> %r" % (oids[:4], [oid_t(o) for o in arg][:6]))
                    return
            wire, _ = wire_response(w)
            R.case(fp, wire is not None, sample=case if R.evaluations % 701 == 0 else None)
            if op == "get" and missing[0]:
                if res[0] == "exc" and isinstance(res[1], NoSuchOID):
                    R.mon["nosuchoid_raised"] += 1
                else:
                    viol("get of a missing object: expected NoSuchOID, got %r" % (res[1],))
                return
            if v1 and any(missing):
                if res[0] == "exc" and isinstance(res[1], NoSuchOID):
                    R.mon["v1_nosuchname_raised"] += 1
                else:
                    viol("v1 noSuchName: expected NoSuchOID, got %r" % (res[1],))
                return
            if res[0] != "ok":
                viol("conformant agent, yet %s raised %r" % (op, res[1]), "usmstats-binding-taken-for-report" if "Error response from remote device" in str(res[1]) else None)
                return
            got = [to_tuple(res[1])] if op == "get" else [to_tuple(v) for v in res[1]]
            if got != exp:
                viol("result %r != database semantics %r" % (got[:4], exp[:4]))
                return
            if [v for _, v in wire] != got:
                viol("result %r != bindings on the wire %r" % (got[:4], wire[:4]))
                return
            R.mon["ok_multiget"] += 1
            if op == "multiget":
                # again with the same list object: same answer
                w.seam.reset(budget=6)
                res2 = rig.outcome(lambda: drive(c.multiget(arg)))
                if res2[0] != "ok" or [to_tuple(v) for v in res2[1]] != got:
                    viol("a second multiget with the same list object gave %r (first: %r)" % (str(res2[1])[:200], got[:4]))
                    return
                R.mon["repeated_with_same_argument_objects"] += 1
            return

        if op in ("getnext", "multigetnext"):
            oids = [tuple(o) for o in args["oids"]]
            succ = [successor(keys, o) for o in oids]
            fp = ("c04", op, level, tuple(s is None for s in succ), len(oids))
            if op == "getnext":
                res = rig.outcome(lambda: drive(c.getnext(OID(oids[0]))))
            else:
                arg = [OID(o) for o in oids]
                res = rig.outcome(lambda: drive(c.multigetnext(arg)))
                if [oid_t(o) for o in arg] != oids:
                    viol("multigetnext changed the caller's list: %r -> %r" % (oids[:4], [oid_t(o) for o in arg][:6]))
                    return
            wire, _ = wire_response(w)
            R.case(fp, wire is not None, sample=case if R.evaluations % 701 == 0 else None)
            p = next((i for i, s in enumerate(succ) if s is None), len(oids))
            if op == "getnext" and succ[0] is None:
                if res[0] == "ok":
                    viol("get-next at the end of the view returned %r" % (res[1],))
                elif isinstance(res[1], NoSuchOID):
                    R.mon["nosuchoid_raised"] += 1
                    R.mon["getnext_end_of_view_raised"] += 1
                else:
                    viol("get-next at the end of the view: expected NoSuchOID, got %r" % (res[1],), "getnext-end-of-view-exception")
                return
            if v1 and p < len(oids):
                if res[0] == "exc" and isinstance(res[1], NoSuchOID):
                    R.mon["v1_nosuchname_raised"] += 1
                else:
                    viol("v1 noSuchName on get-next: expected NoSuchOID, got %r" % (res[1],))
                return
            if res[0] != "ok":
                viol("conformant agent, yet %s raised %r" % (op, res[1]))
                return
            vbs = [res[1]] if op == "getnext" else list(res[1])
            got = [(oid_t(vb.oid), to_tuple(vb.value)) for vb in vbs]
            full = [(s, db[s]) if s is not None else (o, ("eomv", None)) for o, s in zip(oids, succ)]
            if got[:p] != full[:p] or len(got) < p:
                viol("positions before the first end-of-view OID: got %r, expected successors %r" % (got[:p][:4], full[:p][:4]))
                return
            tail = got[p:]
            if tail and tail != full[p:] and tail != [x for x in full[p:] if x[1][0] != "eomv"]:
                viol("tail after the first end-of-view OID is neither absent nor the agent's answers: %r" % (tail[:4],))
                return
            if wire[: len(got)] != got and tail != [x for x in full[p:] if x[1][0] != "eomv"]:
                viol("result %r != bindings on the wire %r" % (got[:4], wire[:4]))
                return
            R.mon["ok_getnext"] += 1
            return

        if op in ("set", "multiset"):
            pairs = [(tuple(o), tuple(v) if not isinstance(v, tuple) else v) for o, v in args["pairs"]]
            fp = ("c04", op, level, tuple(v[0] for _, v in pairs))
            if op == "set":
                o, v = pairs[0]
                res = rig.outcome(lambda: drive(c.set(OID(o), rig.from_tuple(v))))
            else:
                mapping = {OID(o): rig.from_tuple(v) for o, v in pairs}
                res = rig.outcome(lambda: drive(c.multiset(mapping)))
            wire, _ = wire_response(w)
            req = last_request(w)
            R.case(fp, wire is not None, sample=case if R.evaluations % 701 == 0 else None)
            if res[0] != "ok":
                viol("conformant agent, yet %s raised %r" % (op, res[1]))
                return
            sent = [(o, v) for o, v in req["varbinds"]]
            if req["type"] != 0xA3 or sent != pairs:
                viol("agent received %r, caller supplied %r" % (sent[:3], pairs[:3]))
                return
            if w.agent.sets[-len(pairs):] != pairs:
                viol("agent stored %r" % (w.agent.sets[-len(pairs):][:3],))
                return
            if op == "set":
                got = [(pairs[0][0], to_tuple(res[1]))]
            else:
                got = [(oid_t(k), to_tuple(v)) for k, v in res[1].items()]
            if got != wire:
                viol("returned %r, agent confirmed %r" % (got[:3], wire[:3]))
                return
            R.mon["ok_set"] += 1
            return

        if op == "bulkget":
            scal = [tuple(o) for o in args["scalars"]]
            reps = [tuple(o) for o in args["repeaters"]]
            m = args["maxrep"]
            fp = ("c04", op, level, len(scal), len(reps), m, tuple(successor(keys, o) is None for o in scal + reps))
            # the caller's own list objects, passed again further down (a polling loop)
            arg_s, arg_r = [OID(o) for o in scal], [OID(o) for o in reps]
            res = rig.outcome(lambda: drive(c.bulkget(arg_s, arg_r, max_list_size=m)))
            wire, _ = wire_response(w)
            req = last_request(w)
            if [oid_t(o) for o in arg_s] != scal or [oid_t(o) for o in arg_r] != reps:
                viol("bulkget changed the caller's argument lists: scalars %r -> %r, repeaters %r -> %r" % (scal[:4], [oid_t(o) for o in arg_s][:6], reps[:4], [oid_t(o) for o in arg_r][:6]))
                return
            R.case(fp, wire is not None, sample=case if R.evaluations % 701 == 0 else None)
            if res[0] != "ok":
                viol("conformant agent, yet bulkget raised %r" % (res[1],))
                return
            br = res[1]
            if not isinstance(br, BulkResult):
                viol("bulkget returned %r" % (type(br),))
                return
            n = len(scal)
            # the agent can only be held to the request it was sent: the GETBULK must
            # name exactly the caller's OIDs, in the caller's order (duplicates included),
            # or no binding of the answer can be attributed to what the caller asked for
            sent_oids = [tuple(o) for o, _ in req["varbinds"]]
            if sent_oids != scal + reps:
                viol("GETBULK names %r, the caller asked for scalars %r + repeaters %r: the answer cannot be attributed" % (sent_oids[:6], scal[:4], reps[:4]))
                return
            # reference semantics of the non-repeaters
            exp_scal = []
            for o in scal:
                s = successor(keys, o)
                exp_scal.append((s, db[s]) if s is not None else (o, ("eomv", None)))
            if wire[:n] != exp_scal:
                R.inconclusive("reference agent disagrees with the check's own GETBULK semantics")
                return
            got_scal = [(oid_t(k), to_tuple(v)) for k, v in br.scalars.items()]
            if got_scal != list(dict(wire[:n]).items()):
                viol("scalars %r != first %d wire bindings %r" % (got_scal[:4], n, wire[:n][:4]))
                return
            rep_wire = wire[n:]
            got_list = [(oid_t(k), to_tuple(v)) for k, v in br.listing.items()]
            first_eomv = next((i for i, (_, v) in enumerate(rep_wire) if v[0] == "eomv"), len(rep_wire))
            must = list(dict(rep_wire[:first_eomv]).items())
            may = list(dict([x for x in rep_wire if x[1][0] != "eomv"]).items())
            if got_list[: len(must)] != must:
                viol("listing %r does not start with the wire bindings up to the first endOfMibView %r" % (got_list[:4], must[:4]))
                return
            if got_list != may[: len(got_list)] and got_list != must:
                viol("listing %r invents or reorders bindings (wire: %r)" % (got_list[:6], rep_wire[:6]))
                return
            # reference semantics of the repeaters: column j, repetition i
            cur = list(reps)
            for i in range(0, len(rep_wire), max(len(reps), 1)):
                row = rep_wire[i : i + len(reps)]
                for j, (o, v) in enumerate(row):
                    s = successor(keys, cur[j])
                    expect = (s, db[s]) if s is not None else (cur[j], ("eomv", None))
                    if (o, v) != expect:
                        R.inconclusive("reference agent's GETBULK row disagrees with the check's semantics")
                        return
                    if s is not None:
                        cur[j] = s
            if req["error_status"] != n or req["error_index"] != m:
                viol("GETBULK carried non-repeaters=%d max-repetitions=%d, caller gave %d/%d" % (req["error_status"], req["error_index"], n, m))
                return
            R.mon["ok_bulkget"] += 1
            if len(rep_wire) < m * len(reps):
                R.mon["bulk_shorter_than_max_accepted"] += 1
            # the same call again with the same argument objects: same request, same answer
            w.seam.reset(budget=6)
            res2 = rig.outcome(lambda: drive(c.bulkget(arg_s, arg_r, max_list_size=m)))
            req2 = last_request(w)
            def norm(b):
                return ([(oid_t(k), to_tuple(v)) for k, v in b.scalars.items()], [(oid_t(k), to_tuple(v)) for k, v in b.listing.items()])

            if res2[0] != "ok" or norm(res2[1]) != norm(br) or [tuple(o) for o, _ in req2["varbinds"]] != scal + reps or req2["error_status"] != n:
                viol("a second bulkget with the same argument objects gave %r / request %r (first: %r)" % (str(res2[1])[:200], [tuple(o) for o, _ in req2["varbinds"]][:6], str(br)[:200]))
                return
            R.mon["repeated_with_same_argument_objects"] += 1
            return

        if op == "sequence":
            # several operations on ONE client within the same second (identical
            # request ids and, for repeated GETs, identical request datagrams) while
            # the agent's state changes: every answer must be the agent's CURRENT one
            oid = tuple(args["oid"])
            v2, v3 = args["v2"], args["v3"]
            w.seam.budget = 60
            fp = ("c04", op, level, db[oid][0], v2[0], v3[0])
            steps = []
            R.case(fp, True, sample=case if R.evaluations % 301 == 0 else None)

            def get():
                return to_tuple(drive(c.get(OID(oid))))

            try:
                steps.append(("get", get(), db[oid]))
                steps.append(("get-again", get(), db[oid]))
                steps.append(("set", to_tuple(drive(c.set(OID(oid), rig.from_tuple(v2)))), v2))
                steps.append(("get-after-set", get(), v2))
                w.agent.db[oid] = v3  # another manager changed it
                steps.append(("get-after-foreign-change", get(), v3))
                got = [to_tuple(x) for x in drive(c.multiget([OID(oid), OID(oid)]))]
                steps.append(("multiget-twice-same-oid", got, [v3, v3]))
                w.agent.db[oid] = db[oid]
                steps.append(("get-after-restore", get(), db[oid]))
                # the agent CONFIRMS something else than was supplied (a truncated string, a
                # clamped gauge): set() and multiset() return what the agent confirmed
                def confirm_other(req, resp):
                    if req["type"] != 0xA3:
                        return resp
                    out = dict(resp)
                    out["varbinds"] = [(o, v3) for o, _ in resp["varbinds"]]
                    return out

                w.agent.pdu_hook = confirm_other
                steps.append(("set-confirmed-differently", to_tuple(drive(c.set(OID(oid), rig.from_tuple(v2)))), v3))
                ms = drive(c.multiset({OID(oid): rig.from_tuple(v2)}))
                steps.append(("multiset-confirmed-differently", [to_tuple(x) for x in ms.values()], [v3]))
                w.agent.pdu_hook = None
                w.agent.db[oid] = db[oid]
                # copy / restore: value OBJECTS that came out of responses (single get,
                # multiget, get-next) are written back as they are; the agent must
                # receive exactly those typed values
                others = [k for k in sorted(db) if k != oid and db[k][0] not in ("nso", "nsi", "eomv")][:3]
                if others and not (v1 and any(db[k][0] == "c64" for k in others)):
                    objs = [drive(c.get(OID(others[0])))] + list(drive(c.multiget([OID(k) for k in others[1:]]))) if len(others) > 1 else [drive(c.get(OID(others[0])))]
                    target = oid
                    for k, obj in zip(others, objs):
                        echoed = to_tuple(drive(c.set(OID(target), obj)))
                        steps.append(("write-back-of-a-read-value", (echoed, w.agent.db.get(target)), (db[k], db[k])))
                    pairs = {OID(target): objs[0]}
                    drive(c.multiset(pairs))
                    steps.append(("multiset-of-a-read-value", w.agent.db.get(target), db[others[0]]))
                    R.mon["read_values_written_back"] += len(objs) + 1
            except rig.BudgetExceeded:
                raise
            except Exception as exc:  # noqa: BLE001
                viol("operation sequence on one client raised %r after %r" % (exc, [s0[0] for s0 in steps]))
                return
            for name, got, want in steps:
                if got != want:
                    viol("step %s returned %r, the agent's current value is %r" % (name, got, want), None)
                    return
            R.mon["ok_sequences"] += 1
            return

        if op == "countfault":
            sub = args["sub"]
            fault = args["fault"]
            oids = [tuple(o) for o in args["oids"]]
            extra = ((1, 3, 6, 1, 99, 1, 0), ("int", 424242))

            def hook(req, resp):
                vbs = list(resp["varbinds"])
                if resp["error_status"]:
                    return resp
                if fault == "add":
                    pos = args["pos"] % (len(vbs) + 1)
                    vbs.insert(pos, extra)
                else:
                    if not vbs:
                        return resp
                    vbs.pop(args["pos"] % len(vbs))
                out = dict(resp)
                out["varbinds"] = vbs
                hook.applied = True
                return out

            hook.applied = False
            # history: earlier, perfectly normal use of the same client (incl. a lenient
            # walk) must not change how the faulty response is treated afterwards
            for pre in args.get("prelude", ()):
                try:
                    if pre == "walk-warn":
                        rig.drive_agen(c.walk(OID((1, 3, 6, 1, 2, 1)), errors=rig.lenient()), limit=200)
                    elif pre == "walk":
                        rig.drive_agen(c.walk(OID((1, 3, 6, 1, 2, 1))), limit=200)
                    elif pre == "bulkwalk":
                        rig.drive_agen(c.bulkwalk([OID((1, 3, 6, 1, 2, 1))], bulk_size=5), limit=200)
                    elif pre == "get-missing":
                        drive(c.get(OID((1, 3, 6, 1, 77, 1, 0))))
                    elif pre == "multiget":
                        drive(c.multiget([OID(o) for o in oids]))
                except rig.BudgetExceeded:
                    raise
                except Exception:  # noqa: BLE001 - e.g. NoSuchOID from get-missing
                    pass
                R.mon["prelude_" + pre] += 1
            w.seam.reset(budget=6)
            w.agent.pdu_hook = hook
            if sub == "get":
                res = rig.outcome(lambda: drive(c.get(OID(oids[0]))))
            elif sub == "multiget":
                res = rig.outcome(lambda: drive(c.multiget([OID(o) for o in oids])))
            elif sub == "getnext":
                res = rig.outcome(lambda: drive(c.getnext(OID(oids[0]))))
            elif sub == "multigetnext":
                res = rig.outcome(lambda: drive(c.multigetnext([OID(o) for o in oids])))
            elif sub == "set":
                res = rig.outcome(lambda: drive(c.set(OID(oids[0]), rig.from_tuple(("int", 7)))))
            else:
                res = rig.outcome(lambda: drive(c.multiset({OID(o): rig.from_tuple(("int", i)) for i, o in enumerate(oids)})))
            fp = ("c04", op, level, sub, fault, len(oids), args["pos"] % 9, tuple(args.get("prelude", ())))
            R.case(fp, hook.applied, sample=case if R.evaluations % 401 == 0 else None)
            if not hook.applied:
                R.mon["countfault_not_applicable"] += 1
                return
            if res[0] == "exc" and isinstance(res[1], SnmpError):
                R.mon["count_fault_refused"] += 1
            elif res[0] == "exc":
                viol("response with a %s binding: expected SnmpError, got %r" % ("further" if fault == "add" else "missing", res[1]))
            else:
                viol("response with a %s binding was accepted: %r" % ("further" if fault == "add" else "missing", res[1]))
            return

        if op == "bulkfault":
            scal = [tuple(o) for o in args["scalars"]]
            reps = [tuple(o) for o in args["repeaters"]]
            m = args["maxrep"]
            over = args["over"]
            limit = len(scal) + m * len(reps)

            def hook(req, resp):
                vbs = list(resp["varbinds"])
                i = 0
                while len(vbs) < limit + over:
                    vbs.append(((1, 3, 6, 1, 99, 2, i), ("int", i)))
                    i += 1
                out = dict(resp)
                out["varbinds"] = vbs
                return out

            w.agent.pdu_hook = hook
            res = rig.outcome(lambda: drive(c.bulkget([OID(o) for o in scal], [OID(o) for o in reps], max_list_size=m)))
            fp = ("c04", op, level, len(scal), len(reps), m, over)
            R.case(fp, True, sample=case if R.evaluations % 401 == 0 else None)
            if over > 0:
                if res[0] == "exc" and isinstance(res[1], SnmpError):
                    R.mon["count_fault_refused"] += 1
                    R.mon["bulk_oversize_refused"] += 1
                else:
                    viol("GETBULK response with %d bindings (max %d) was not refused with SnmpError: %r" % (limit + over, limit, res[1]))
            else:
                if res[0] != "ok":
                    viol("GETBULK response with exactly n+m*r=%d bindings was refused: %r" % (limit, res[1]))
                else:
                    R.mon["bulk_exact_max_accepted"] += 1
            return
        raise ValueError(op)
    except rig.BudgetExceeded:
        viol("more than %d requests for one %s" % (w.seam.budget, op))


def gen_args(rng, op, db, level):
    v1 = level == "v1"
    if op == "get":
        return {"oids": pick_oids(rng, db, 1)}
    if op == "multiget":
        return {"oids": pick_oids(rng, db, rng.randint(1, 8))}
    if op == "getnext":
        return {"oids": pick_oids(rng, db, 1)}
    if op == "multigetnext":
        return {"oids": pick_oids(rng, db, rng.randint(1, 8), allow_end=rng.random() < 0.4)}
    if op in ("set", "multiset"):
        n = 1 if op == "set" else rng.randint(1, 6)
        seen = set()
        pairs = []
        for o in pick_oids(rng, db, n):
            if o in seen:
                continue
            seen.add(o)
            pairs.append((o, gen.gen_value(rng)))
        return {"pairs": pairs}
    if op == "bulkget":
        a = {
            "scalars": pick_oids(rng, db, rng.randint(0, 3)),
            "repeaters": pick_oids(rng, db, rng.randint(0, 3), allow_end=rng.random() < 0.3),
            "maxrep": rng.randint(0, 12),
        }
        if a["scalars"] and rng.random() < 0.25:
            # the same OID as non-repeater and as repeater / twice among the non-repeaters
            if rng.random() < 0.5:
                a["repeaters"].insert(rng.randint(0, len(a["repeaters"])), rng.choice(a["scalars"]))
            else:
                a["scalars"].append(a["scalars"][0])
        return a
    if op == "sequence":
        present = sorted(db)
        v2 = gen.gen_value(rng)
        v3 = gen.gen_value(rng)
        if v1:
            v2 = v2 if v2[0] != "c64" else ("int", 2)
            v3 = v3 if v3[0] != "c64" else ("int", 3)
        return {"oid": rng.choice(present), "v2": v2, "v3": v3}
    if op == "countfault":
        sub = rng.choice(("get", "multiget", "getnext", "multigetnext", "set", "multiset"))
        n = 1 if sub in ("get", "getnext", "set") else rng.randint(1, 6)
        keys = sorted(db)
        # present objects with successors only: the fault is the only deviation
        pool = keys[:-1] if len(keys) > 1 else keys
        oids = []
        for _ in range(n):
            o = rng.choice(pool)
            if sub in ("set", "multiset") and o in oids:
                continue
            oids.append(o)
        prelude = rng.sample(("walk-warn", "walk", "bulkwalk", "get-missing", "multiget"), rng.choice((0, 0, 1, 2)))
        if v1:
            prelude = [x for x in prelude if x != "bulkwalk"]
        return {"sub": sub, "fault": rng.choice(("add", "drop")), "oids": oids, "pos": rng.randint(0, 8), "prelude": prelude}
    if op == "bulkfault":
        return {
            "scalars": pick_oids(rng, db, rng.randint(0, 2), allow_end=False),
            "repeaters": pick_oids(rng, db, rng.randint(1, 3), allow_end=False),
            "maxrep": rng.randint(0, 6),
            "over": rng.choice((0, 1, 1, 2, 7)),
        }
    raise ValueError(op)


def run(R):
    n = N_CASES[R.tier]
    levels = rig.LEVEL_CYCLE_ALL
    for i in range(n):
        if not R.mine(i):
            continue
        if not R.time_left():
            break
        rng = R.rng(i)
        db = gen_db(rng)
        op = OPS[i % len(OPS)]
        level = levels[(i // len(OPS)) % len(levels)]
        if level == "v1" and op in ("bulkget", "bulkfault"):
            level = "v2c"
        args = gen_args(rng, op, db, level)
        if rng.random() < 0.2:
            args["via"] = ("configure", rng.choice([lv for lv in ("v1", "v2c", "v3-noauth", "v3-md5") if lv != level]))
            if rng.random() < 0.4 and level in ("v1", "v2c"):
                args["via"] = ("configure", "v2c" if level == "v1" else "v1", "same")
        run_case(R, level, op, db, args)
    if R.shard == 1 % R.nshards:
        max_datagram(R)
    if R.shard == 2 % R.nshards:
        long_lived_client(R)
    if R.shard == 3 % R.nshards:
        after_a_failed_first_call(R)
    if R.shard == 0:
        db = {(1, 3, 6, 1, 2, 1, 1, 1, 0): ("str", b"x"), (1, 3, 6, 1, 2, 1, 1, 2, 0): ("int", 2)}
        last = (1, 3, 6, 1, 2, 1, 1, 2, 0)
        for level in rig.LEVELS:
            run_case(R, level, "getnext", db, {"oids": [last]}, "corner")
            run_case(R, level, "get", db, {"oids": [(1, 3, 6, 1, 2, 1, 1, 3, 0)]}, "corner")
            run_case(R, level, "get", db, {"oids": [(1, 3, 6, 1, 2, 1, 1, 1, 1)]}, "corner")
            run_case(R, level, "multigetnext", db, {"oids": [(1, 3), last, (1, 3)]}, "corner")
            if level != "v1":
                run_case(R, level, "bulkget", db, {"scalars": [last], "repeaters": [(1, 3), last], "maxrep": 3}, "corner")
            # every counter that can travel in a Report PDU is also an ordinary object a
            # manager may read: usmStats*, snmpMPDStats (snmpUnknownSecurityModels,
            # snmpInvalidMsgs, snmpUnknownPDUHandlers), snmpUnavailableContexts,
            # snmpUnknownContexts
            stats = {(1, 3, 6, 1, 6, 3, 15, 1, 1, x, 0): ("c32", x) for x in range(1, 7)}
            mpd = {(1, 3, 6, 1, 6, 3, 11, 2, 1, x, 0): ("c32", 10 + x) for x in (1, 2, 3)}
            mpd.update({(1, 3, 6, 1, 6, 3, 12, 1, 4, 0): ("c32", 4), (1, 3, 6, 1, 6, 3, 12, 1, 5, 0): ("c32", 5)})
            for o in sorted(mpd):
                run_case(R, level, "get", {**db, **mpd}, {"oids": [o]}, "corner-reportstats")
            run_case(R, level, "multiget", {**db, **mpd}, {"oids": sorted(mpd)}, "corner-reportstats")
            run_case(R, level, "getnext", {**db, **mpd}, {"oids": [(1, 3, 6, 1, 6, 3, 11)]}, "corner-reportstats")
            run_case(R, level, "multigetnext", {**db, **mpd}, {"oids": [(1, 3, 6, 1, 6, 3, 11), (1, 3, 6, 1, 6, 3, 12, 1, 4)]}, "corner-reportstats")
            if level != "v1":
                run_case(R, level, "bulkget", {**db, **mpd}, {"scalars": [], "repeaters": [(1, 3, 6, 1, 6, 3, 11)], "maxrep": 5}, "corner-reportstats")
            run_case(R, level, "multiget", {**db, **stats}, {"oids": sorted(stats)[:3]}, "corner-usmstats")
            run_case(R, level, "getnext", {**db, **stats}, {"oids": [(1, 3, 6, 1, 6, 3, 15, 1, 1, 3)]}, "corner-usmstats")


def after_a_failed_first_call(R):
    """The path after a failure: the client's very first call fails on the way (the reply
    to its first datagram - for SNMPv3 the discovery - is lost, is garbage, or the caller
    gives up with wait_for); the ordinary calls after it get the agent's answers."""
    import asyncio

    keys = [(1, 3, 6, 1, 4, 1, 4242, 6, i, 0) for i in range(1, 6)]
    db = {k: ("int", 100 + k[-2]) for k in keys}
    for level in rig.LEVELS:
        for how in ("lost", "garbage", "given-up"):
            w = World(level, db)
            c = w.client
            inner = w.seam.responder
            seen = {"n": 0}

            def unlucky(data, how=how, inner=inner, seen=seen):
                seen["n"] += 1
                resp = inner(data)
                if seen["n"] > 1:
                    return resp
                return None if how == "lost" else b"\x30\x03\x02\x01\x07"

            case = _case(level, "after-failed-first-call", {}, args={"how": how})
            if how == "given-up":
                # the caller's wait_for gives up while the call's first datagram is out
                class Gate:
                    hold = True

                    async def __call__(self, endpoint, packet, timeout=None, retries=None, loop=None):
                        if self.hold:
                            await asyncio.get_running_loop().create_future()  # never answered
                        return await w.seam(endpoint, packet, timeout=timeout, retries=retries)

                gate = Gate()
                c = type(c)("192.0.2.1", w.creds, sender=gate)

                async def give_up():
                    try:
                        await asyncio.wait_for(c.get(OID(keys[0])), 0.01)
                        return "answered"
                    except (asyncio.TimeoutError, asyncio.CancelledError):
                        return "gave up"

                try:
                    gave_up = rig._run(give_up())
                except BaseException:  # noqa: BLE001 - this rig could not arrange it
                    gave_up = None
                gate.hold = False
                if gave_up != "gave up":
                    R.mon["give_up_not_arranged"] += 1
                    continue
            else:
                w.seam.responder = unlucky
                first = rig.outcome(lambda: drive(c.get(OID(keys[0]))))
                w.seam.responder = inner
                if first[0] == "ok":
                    R.violation(case, "the first call's only reply was %s, yet it returned %r" % (how, first[1]), None)
                    continue
            for j, op in enumerate(("get", "multiget", "getnext", "set", "get")):
                w.seam.reset(budget=8)
                R.evaluations += 1
                if op == "get":
                    res = rig.outcome(lambda: drive(c.get(OID(keys[j % 5]))))
                    want, got = db[keys[j % 5]], (to_tuple(res[1]) if res[0] == "ok" else None)
                elif op == "multiget":
                    res = rig.outcome(lambda: drive(c.multiget([OID(k) for k in keys[:3]])))
                    want, got = [db[k] for k in keys[:3]], ([to_tuple(v) for v in res[1]] if res[0] == "ok" else None)
                elif op == "getnext":
                    res = rig.outcome(lambda: drive(c.getnext(OID(keys[1]))))
                    want, got = (keys[2], db[keys[2]]), ((oid_t(res[1].oid), to_tuple(res[1].value)) if res[0] == "ok" else None)
                else:
                    res = rig.outcome(lambda: drive(c.set(OID(keys[4]), rig.from_tuple(("int", 77)))))
                    want, got = ("int", 77), (to_tuple(res[1]) if res[0] == "ok" else None)
                    db = dict(db)
                    db[keys[4]] = ("int", 77)
                if res[0] != "ok" or got != want:
                    R.violation(case, "after a first call that failed (%s), %s on the same client gave %r, the agent answered %r" % (how, op, res[1] if res[0] != "ok" else got, want), None)
                    break
            else:
                R.mon["clients_fine_after_a_failed_first_call"] += 1
            db = {k: ("int", 100 + k[-2]) for k in keys}


def long_lived_client(R):
    """ONE client asks hundreds of different questions and then the early ones again (a
    poller with a long list of objects): every answer is still the agent's answer to the
    question asked."""
    keys = [(1, 3, 6, 1, 4, 1, 4242, 5, i, 0) for i in range(1, 61)]
    db = {k: ("int", k[-2] * 7) for k in keys}
    lists = []
    for i in range(520):
        a, b, c = keys[i % 60], keys[(i // 60 * 13 + i * 7 + 1) % 60], keys[(i * i + i // 60) % 60]
        lists.append([a, b, c] if i % 4 else [a, b])
    lists = [[k] for k in keys[:30]] + lists
    distinct = len({tuple(x) for x in lists})
    if distinct < 400:
        R.inconclusive("long-lived client: only %d distinct questions generated" % distinct)
        return
    R.notes["long_lived_distinct_questions"] = distinct
    lists = lists + lists[:120]
    for level in ("v1", "v2c", "v3-md5-priv"):
        w = World(level, db)
        w.prime()
        c = w.client
        for j, oids in enumerate(lists):
            w.seam.reset(budget=6)
            w.agent.requests.clear()
            case = _case(level, "long-lived", {}, args={"request_number": j, "oids": oids})
            if j % 4 == 3:
                res = rig.outcome(lambda: drive(c.multigetnext([OID(o) for o in oids])))
                want = [(successor(sorted(db), o), db.get(successor(sorted(db), o))) for o in oids]
                got = [(oid_t(vb.oid), to_tuple(vb.value)) for vb in res[1]] if res[0] == "ok" else None
                if any(s0 is None for s0, _ in want):
                    continue
            elif len(oids) == 1:
                res = rig.outcome(lambda: drive(c.get(OID(oids[0]))))
                want, got = db[oids[0]], (to_tuple(res[1]) if res[0] == "ok" else None)
            else:
                res = rig.outcome(lambda: drive(c.multiget([OID(o) for o in oids])))
                want, got = [db[o] for o in oids], ([to_tuple(v) for v in res[1]] if res[0] == "ok" else None)
            R.evaluations += 1
            if res[0] != "ok":
                R.violation(case, "request number %d of one client (%r) raised %r" % (j, oids[:3], res[1]), None)
                break
            if got != want:
                R.violation(case, "request number %d of one client: asked for %r, got %r, the agent holds %r" % (j, oids[:3], str(got)[:120], str(want)[:120]), None)
                break
            sent = [tuple(o) for o, _ in last_request(w)["varbinds"]]
            if sent != oids:
                R.violation(case, "request number %d of one client names %r on the wire, the caller asked for %r" % (j, sent[:4], oids[:4]), None)
                break
        else:
            R.mon["long_lived_clients_ok"] += 1
        R.mon["long_lived_requests"] += len(lists)


def max_datagram(R):
    """Answers that fill the largest UDP/IPv4 payload exactly (65507 octets) and the two
    sizes below, for the operations that can carry them."""
    a, b = (1, 3, 6, 1, 4, 1, 4242, 1, 1), (1, 3, 6, 1, 4, 1, 4242, 1, 2)
    for level in rig.LEVELS:
        ops = [("multiget", {"oids": [a, b]}), ("multigetnext", {"oids": [a[:-1], a]})]
        if level != "v1":
            ops.append(("bulkget", {"scalars": [], "repeaters": [a[:-1]], "maxrep": 2}))
        for op, args in ops:
            x, hit = 35000, set()
            for _ in range(8):
                db = {a: ("str", b"a" * 30000), b: ("str", b"b" * x)}
                run_case(R, level, op, db, dict(args), "max-datagram")
                w = run_case.last_world
                if not w.seam.responses:
                    break
                size = len(w.seam.responses[-1])
                hit.add(size)
                want = next((t for t in (65507, 65506, 65505) if t not in hit), None)
                if want is None:
                    break
                x += want - size
            if {65505, 65506, 65507} <= hit:
                R.mon["max_datagram_ops"] += 1
            else:
                R.mon["max_datagram_sizes_not_reached"] += 1


def replay(R, v):
    from .walkcommon import dec_db

    if v["case"].get("op") == "long-lived":
        long_lived_client(R)
        return
    if v["case"].get("op") == "after-failed-first-call":
        after_a_failed_first_call(R)
        return

    c = v["case"]
    args = c["args"]

    def fix(x):
        if isinstance(x, list):
            return [fix(y) for y in x]
        if isinstance(x, str) and x.startswith("hex:"):
            return bytes.fromhex(x[4:])
        return x

    args = {k: fix(val) for k, val in args.items()}
    for key in ("v2", "v3"):
        if key in args:
            args[key] = (args[key][0], tuple(args[key][1]) if isinstance(args[key][1], list) else args[key][1])
    if "pairs" in args:
        args["pairs"] = [(tuple(o), (val[0], tuple(val[1]) if isinstance(val[1], list) else val[1])) for o, val in args["pairs"]]
    run_case(R, c["level"], c["op"], dec_db(c["db"]), args, "replay")
