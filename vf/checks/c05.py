"""
C05 - every datagram the client emits is a well-formed BER-encoded SNMP
message that the independent decoder reads back as exactly the intended
request.

The monitor sits on the seam: every request datagram of every operation is
decoded by vf.ber (strict) - for privacy levels after undoing the rig's
transform with the independently localised key - and compared field by
field with the intent derived from the API call.
"""

from .. import rig  # noqa: F401
from .. import ber, env, gen, privxf
from ..rig import OID, World, drive, drive_agen
import puresnmp.api.raw as raw_mod
import puresnmp_plugins.security.usm as usm_mod

PROP = "C05"
LEVEL = "exploration"
SHARDS = {"quick": 4, "thorough": 16}
TIME_CAP = {"quick": 50, "thorough": 600}
N_CASES = {"quick": 5000, "thorough": 250000}
RULE = (
    "Operations get/multiget/getnext/multigetnext/set/multiset/bulkget/walk/bulkwalk/table/"
    "bulktable with generated arguments: OIDs of 2..128 arcs with sub-identifiers up to 2^32-1 "
    "(labelled classes: single-arc OID, first arcs 2.y with y>=40), SET values of every type "
    "at their byte boundaries and strings up to 65000 octets, community strings of length "
    "0..300, context names 0..64 octets, configured context engine ids of 5..32 octets, request "
    "ids swept over {0,1,127,128,...,2^31-1} through the clock and over negative/2^31.. values "
    "through the library's id source, on v1, v2c and the five v3 levels. Every datagram seen at "
    "the seam is decoded by the independent strict decoder and compared with the intent "
    "(version, community | v3 header+USM parameters+scoped PDU, PDU type, error fields / "
    "non-repeaters+max-repetitions, OIDs in order, NULL / typed SET values); 30% of the clients "
    "start with other credentials (any family) and reach the intended ones through configure() "
    "or inside a reconfigure() block. Remaining fields: "
    "non-repeaters+max-repetitions, OIDs in order, NULL / typed SET values). The request-id is "
    "decided behaviourally: an agent echoing the decoded id must be accepted, one answering "
    "id+1 refused. Non-trivial: >=1 datagram checked; distinct by (op, level, arg classes)."
    " Half of the switched clients share everything the two families can share (same communit"
    "y for v1<->v2c, same user and passwords between v3 levels); context engine ids also of z"
    "ero octets only."
    " In 40% of the v3 cases the agent announces msgMaxSize 484..2^31-1; every request must c"
    "arry the msgMaxSize this client announced in its own discovery probe."
    ' One case in seven first makes a permanent configure() call that is refused (mistyped se'
    'tting) while naming credentials of another family; the datagrams afterwards are those of'
    ' the unchanged configuration.'
)
ASSUMPTIONS = [
    "the first datagram of a fresh v3 client is the discovery probe (C12 owns its content); it must still decode under the strict decoder",
    "msgFlags: auth/priv bits must equal the credentials' level and confirmed-class PDUs must carry the reportable bit (also monitored by C10 at the agent)",
    "an API call that refuses to encode its arguments (raises before anything is sent) emits nothing and is not a violation of this property",
]
REQUIRED_MONITORS = ("datagrams_decoded", "datagrams_match_intent", "echo_accepted", "id_plus_one_refused")

OPS = ("get", "multiget", "getnext", "multigetnext", "set", "multiset", "bulkget", "walk", "bulkwalk", "table", "bulktable")
RID_SWEEP = [0, 1, 127, 128, 255, 256, 32767, 32768, 65535, 65536, 2**23 - 1, 2**23, 2**24, 2**31 - 2, 2**31 - 1]
RID_PATCHED = [-1, -128, -129, -(2**31), 2**31, 2**32 - 1, 2**32, 2**40]


def gen_oid(rng, cls=None):
    """Returns (tuple, label)."""
    r = rng.random() if cls is None else None
    if cls == "single-arc" or (cls is None and r < 0.01):
        return (rng.choice((0, 1, 2)),), "single-arc"
    if cls == "arc2-big" or (cls is None and r < 0.03):
        return (2, rng.choice((40, 47, 48, 100, 175, 176, 999, 2**31))) + tuple(rng.randint(0, 5) for _ in range(rng.randint(0, 3))), "arc2-big"
    if cls is None and r < 0.08:
        return (rng.choice((0, 1)), rng.choice((0, 1, 39))) + tuple(rng.choice(gen.SUBID_POOL) for _ in range(rng.randint(0, 4))), "low-arcs"
    if cls is None and r < 0.11:
        return (2, rng.choice((0, 1, 25, 39))) + tuple(rng.choice(gen.SUBID_POOL) for _ in range(rng.randint(0, 4))), "arc2-small"
    n = rng.choice((0, 1, 2, 5, 7, 9, 12, 30, 126)) if cls is None else 5
    return (1, 3) + tuple(rng.choice(gen.SUBID_POOL) if rng.random() < 0.5 else rng.randint(0, 40) for _ in range(n)), "n%d" % (n + 2)


def gen_set_value(rng):
    kind = rng.choice(gen.VALUE_KINDS)
    if kind == "int":
        k = rng.choice((0, 7, 8, 15, 16, 23, 24, 31))
        return (kind, rng.choice(((1 << k) - 1, 1 << k if k < 31 else -(1 << 31), -(1 << k), -(1 << k) - 1 if k < 31 else -1, 0, -1)))
    if kind == "str":
        n = rng.choice((0, 1, 126, 127, 128, 129, 255, 256, 257, 1000, 4000) + ((65000,) if rng.random() < 0.1 else ()))
        if n <= 1000:
            data = bytes(rng.getrandbits(8) for _ in range(n))
        else:
            data = (bytes(rng.getrandbits(8) for _ in range(251)) * (n // 251 + 1))[:n]
        return (kind, data)
    if kind == "oid":
        o, _ = gen_oid(rng, cls="plain")
        return (kind, o)
    if kind == "ip":
        return (kind, bytes(rng.getrandbits(8) for _ in range(4)))
    if kind in ("c32", "g32", "tt"):
        k = rng.choice((0, 7, 8, 15, 16, 23, 24, 31, 32))
        return (kind, min(max(rng.choice(((1 << k) - 1, 1 << k, (1 << k) + 1)), 0), 2**32 - 1))
    if kind == "opaque":
        n = rng.choice((0, 1, 127, 128, 300))
        return (kind, bytes(rng.getrandbits(8) for _ in range(n)))
    if kind == "c64":
        k = rng.choice((0, 8, 31, 32, 33, 56, 63, 64))
        return (kind, min(max(rng.choice(((1 << k) - 1, 1 << k)), 0), 2**64 - 1))
    raise ValueError(kind)


def gen_text(rng, n):
    alphabet = "abcdefghijklmnopqrstuvwxyzABCDEFGHIJKLMNOPQRSTUVWXYZ0123456789 _-.:@/"
    return "".join(rng.choice(alphabet) for _ in range(n))


class Ctx:
    """Everything needed to derive the intent of the datagrams of one case."""

    def __init__(self, level, community, ctx_name, ctx_engine, world):
        self.level = level
        self.community = community
        self.ctx_name = ctx_name
        self.ctx_engine = ctx_engine
        self.w = world


def decode_request(ctx, rawbytes):
    """-> (header dict, pdu dict, problems)"""
    problems = []
    try:
        msg = ber.decode_message(rawbytes)
    except ber.BerError as exc:
        return None, None, ["independent decoder refuses the datagram: %s" % exc]
    level = ctx.level
    if level in ("v1", "v2c"):
        want_v = 0 if level == "v1" else 1
        if msg["version"] != want_v:
            problems.append("version %d, intended %d" % (msg["version"], want_v))
        if msg["community"] != ctx.community.encode("ascii"):
            problems.append("community %r, intended %r" % (msg["community"], ctx.community))
        return msg, msg["pdu"], problems
    if msg["version"] != 3:
        problems.append("version %d, intended 3" % msg["version"])
        return msg, None, problems
    usm = msg["usm"]
    if usm["engine_id"] == b"" and usm["user"] == b"":
        # msgMaxSize is the CLIENT's own receive limit: what it said before it knew
        # anything about the agent is what it has to keep saying
        ctx.__dict__.setdefault("probe_max_size", msg["max_size"])
        return msg, "discovery", problems
    agent = ctx.w.agent
    if ctx.__dict__.get("probe_max_size") is not None and msg["max_size"] != ctx.probe_max_size:
        problems.append("msgMaxSize %d, this client announced %d in its discovery probe (the agent announces %d)" % (msg["max_size"], ctx.probe_max_size, agent.max_size))
    want_flags = {"v3-noauth": 0}.get(level, 3 if level.endswith("-priv") else 1)
    if msg["flags"] & 3 != want_flags:
        problems.append("msgFlags auth/priv bits %d, credentials say %d" % (msg["flags"] & 3, want_flags))
    if msg["flags"] & ~7:
        problems.append("reserved msgFlags bits set: 0x%02x" % msg["flags"])
    if msg["sec_model"] != 3:
        problems.append("msgSecurityModel %d" % msg["sec_model"])
    if msg["max_size"] < 484:
        problems.append("msgMaxSize %d < 484" % msg["max_size"])
    if usm["engine_id"] != agent.engine_id:
        problems.append("msgAuthoritativeEngineID %s, discovered %s" % (usm["engine_id"].hex(), agent.engine_id.hex()))
    if usm["user"] != rig.USER.encode():
        problems.append("msgUserName %r" % usm["user"])
    if want_flags & 1:
        if len(usm["auth"]) != 12:
            problems.append("msgAuthenticationParameters of %d octets" % len(usm["auth"]))
    elif usm["auth"]:
        problems.append("msgAuthenticationParameters present without authentication")
    if not want_flags & 2 and usm["priv"]:
        problems.append("msgPrivacyParameters present without privacy")
    if want_flags & 2:
        if "encrypted" not in msg:
            problems.append("msgData is not an OCTET STRING under privacy credentials")
            return msg, None, problems
        user = agent.users[rig.USER.encode()]
        try:
            plain = privxf.decrypt(user.priv[0], user.priv_key(agent.engine_id), agent.engine_id, usm["boots"], usm["time"], usm["priv"], msg["encrypted"])
            scoped = ber.dec_scoped_pdu(plain, 0, len(plain))
        except (ber.BerError, ValueError) as exc:
            problems.append("scoped PDU does not decode after decryption: %s" % exc)
            return msg, None, problems
    else:
        if "scoped" not in msg:
            problems.append("msgData is not a plaintext scoped PDU")
            return msg, None, problems
        scoped = msg["scoped"]
    if scoped["pdu"]["type"] in (ber.PDU_GET, ber.PDU_GETNEXT, ber.PDU_GETBULK, ber.PDU_SET) and not msg["flags"] & 4:
        problems.append("confirmed-class PDU 0x%02x in a message without the reportable flag (msgFlags=%d)" % (scoped["pdu"]["type"], msg["flags"]))
    want_engine = ctx.ctx_engine or agent.engine_id
    if scoped["ctx_engine"] != want_engine:
        problems.append("contextEngineID %s, intended %s" % (scoped["ctx_engine"].hex(), want_engine.hex()))
    if scoped["ctx_name"] != ctx.ctx_name:
        problems.append("contextName %r, intended %r" % (scoped["ctx_name"], ctx.ctx_name))
    return msg, scoped["pdu"], problems


def check_pdu(pdu, ptype, oids=None, values=None, nonrep=0, maxrep=0, allowed=None):
    problems = []
    if pdu["type"] != ptype:
        problems.append("PDU tag 0x%02x, intended 0x%02x" % (pdu["type"], ptype))
    if pdu["error_status"] != nonrep:
        problems.append("%s field is %d, intended %d" % ("non-repeaters" if ptype == 0xA5 else "error-status", pdu["error_status"], nonrep))
    if pdu["error_index"] != maxrep:
        problems.append("%s field is %d, intended %d" % ("max-repetitions" if ptype == 0xA5 else "error-index", pdu["error_index"], maxrep))
    got_oids = [o for o, _ in pdu["varbinds"]]
    if oids is not None and got_oids != list(oids):
        problems.append("OIDs %r, intended %r" % (got_oids[:4], list(oids)[:4]))
    if allowed is not None and not set(got_oids) <= allowed:
        problems.append("walk continued from OIDs the agent never returned: %r" % (sorted(set(got_oids) - allowed)[:3],))
    if values is None:
        bad = [v for _, v in pdu["varbinds"] if v != ("null", None)]
        if bad:
            problems.append("request bindings carry %r instead of NULL" % (bad[:3],))
    else:
        got_vals = [v for _, v in pdu["varbinds"]]
        if got_vals != list(values):
            problems.append("SET values %r, intended %r" % (str(got_vals)[:200], str(list(values))[:200]))
    return problems


def _arc2_big(o):
    return len(o) > 1 and o[0] == 2 and o[1] >= 48


def classify(problems, pdu, oids):
    """
    Mechanism of a mismatch, from what was observed on the wire: the ONLY
    deviation is in the name of bindings whose intended OID has one arc
    (x690 emits 06 01 0x) or starts 2.y with y >= 48 (x690 emits a
    one-octet first sub-identifier >= 128).
    """
    if len(problems) != 1:
        return None
    if problems[0].startswith("OIDs ") and isinstance(pdu, dict):
        got = [o for o, _ in pdu["varbinds"]]
        if len(got) != len(oids):
            return None
        bad = [i for i, (g, w) in enumerate(zip(got, oids)) if g != w]
        if bad and all(len(oids[i]) == 1 for i in bad):
            return "x690-single-arc-oid"
        if bad and all(len(oids[i]) == 1 or _arc2_big(oids[i]) for i in bad):
            return "x690-first-subid-ge-128"
        return None
    if "OID ends inside a sub-identifier" in problems[0] and any(_arc2_big(o) for o in oids):
        return "x690-first-subid-ge-128"
    return None


def run_case(R, level, op, args, community="public", ctx_name=b"", ctx_engine=b"", rid=None, rid_patched=None, label="", via=None):
    from .walkcommon import enc_db

    db = args.get("db") or {(1, 3, 6, 1, 2, 1, 1, i, 0): ("int", i) for i in range(1, 6)}
    ckw = {}
    if level.startswith("v3"):
        ckw = {"context_name": ctx_name, "engine_id": ctx_engine}
    akw = {"any_context": True}
    if args.get("agent_max_size"):
        akw["max_size"] = args["agent_max_size"]
    if args.get("agent_engine") is not None:
        akw["engine_id"] = args["agent_engine"]
    w = World(level, db, community=community, client_kwargs=ckw, agent_kwargs=akw)
    ctx = Ctx(level, community, ctx_name if level.startswith("v3") else b"", ctx_engine if level.startswith("v3") else b"", w)
    w.seam.budget = 120
    case = {"level": level, "op": op, "args": rig.jsonable({k: v for k, v in args.items() if k != "db"}), "db": enc_db(db) if "db" in args else None,
            "community": community, "ctx_name": rig.jsonable(ctx_name), "ctx_engine": rig.jsonable(ctx_engine), "rid": rid, "rid_patched": rid_patched, "label": label}
    c = w.client
    if via is not None:
        # the client starts life with OTHER credentials and is switched to the
        # intended ones by configure() / inside a reconfigure() block
        from puresnmp import Client as _Client

        c = _Client("192.0.2.1", rig.initial_credentials(via, community), sender=w.seam, **ckw)
        if args.get("prelude"):
            # the client TALKS under its first credentials (the device need not accept
            # them) before it is switched: whatever it remembered from that exchange must
            # not show in the datagrams sent under the intended credentials
            _budget = w.seam.budget
            w.seam.budget = 12
            try:
                rig.outcome(lambda: drive(c.get(OID((1, 3, 6, 1, 2, 1, 1, 1, 0)))))
            except rig.BudgetExceeded:
                pass
            w.seam.reset(budget=_budget)
            w.agent.requests.clear()
            R.mon["clients_that_talked_before_they_were_switched"] += 1
        if via[0] == "configure":
            c.configure(credentials=w.creds)
    case["via"] = list(via) if via else None
    if args.get("refused_configure") and (via is None or via[0] == "configure"):
        # the path after a refused call: a permanent configure() with a mistyped setting
        # (refused with TypeError, handled by the caller) that ALSO names credentials of
        # another family changes nothing
        try:
            c.configure(credentials=rig.initial_credentials(("configure", args["refused_configure"]), community), no_such_setting=3)
            refused = False
        except TypeError:
            refused = True
        if not refused:
            return  # not refused: then the credentials were changed on request; nothing to hold it against
        R.mon["ops_after_a_refused_configure"] += 1
    saved_now = env.CLOCK.now
    saved = {}
    if rid is not None:
        env.CLOCK.freeze(rid)
    if rid_patched is not None:
        for mod in (raw_mod, usm_mod):
            if hasattr(mod, "get_request_id"):
                saved[mod] = mod.get_request_id
                mod.get_request_id = lambda n=rid_patched: n
    plus_one = args.get("plus_one", False)
    if plus_one:
        def hook(req, resp):
            out = dict(resp)
            out["request_id"] = resp["request_id"] + 1
            return out
        w.agent.pdu_hook = hook
    oids = [tuple(o) for o in args.get("oids", [])]
    import contextlib

    block = c.reconfigure(credentials=w.creds) if via is not None and via[0] == "reconfigure" else contextlib.nullcontext()
    try:
        try:
          with block:
              if op == "get":
                  res = rig.outcome(lambda: drive(c.get(OID(oids[0]))))
              elif op == "multiget":
                  res = rig.outcome(lambda: drive(c.multiget([OID(o) for o in oids])))
              elif op == "getnext":
                  res = rig.outcome(lambda: drive(c.getnext(OID(oids[0]))))
              elif op == "multigetnext":
                  res = rig.outcome(lambda: drive(c.multigetnext([OID(o) for o in oids])))
              elif op == "set":
                  res = rig.outcome(lambda: drive(c.set(OID(oids[0]), rig.from_tuple(args["values"][0]))))
              elif op == "multiset":
                  res = rig.outcome(lambda: drive(c.multiset({OID(o): rig.from_tuple(v) for o, v in zip(oids, args["values"])})))
              elif op == "bulkget":
                  res = rig.outcome(lambda: drive(c.bulkget([OID(o) for o in oids[: args["nscal"]]], [OID(o) for o in oids[args["nscal"] :]], max_list_size=args["maxrep"])))
              elif op == "walk":
                  res = rig.outcome(lambda: drive_agen(c.walk(OID(oids[0])), limit=300))
              elif op == "bulkwalk":
                  res = rig.outcome(lambda: drive_agen(c.bulkwalk([OID(o) for o in oids], bulk_size=args["maxrep"]), limit=300))
              elif op == "table":
                  res = rig.outcome(lambda: drive(c.table(OID(oids[0]))))
              elif op == "bulktable":
                  res = rig.outcome(lambda: drive(c.bulktable(OID(oids[0]), bulk_size=args["maxrep"])))
              else:
                  raise ValueError(op)
        except rig.BudgetExceeded:
            res = ("exc", "budget")
    finally:
        for mod, fn in saved.items():
            mod.get_request_id = fn
        env.CLOCK.freeze(saved_now)

    labels = tuple(sorted(set(args.get("labels", ()))))
    reqs = w.seam.requests
    fp = ("c05", op, level, labels, tuple(v[0] for v in args.get("values", ())), len(oids), len(community) > 127, len(ctx_name), len(ctx_engine), rid, rid_patched, plus_one, via)
    R.case(fp, bool(reqs), sample={**case, "datagram0": reqs[-1].hex()[:400] if reqs else None} if R.evaluations % 997 == 0 else None)
    if not reqs:
        R.mon["refused_to_encode"] += 1
        return
    revealed = set()
    for resp in w.seam.responses:
        try:
            m = ber.decode_message(resp)
            p = m["pdu"] if "pdu" in m else (m.get("scoped") or {}).get("pdu")
            if p:
                revealed.update(o for o, _ in p["varbinds"])
        except ber.BerError:
            pass
    for rec in w.agent.requests:
        p = rec.get("response_pdu")
        if p:
            revealed.update(o for o, _ in p["varbinds"])
    first_pdu = True
    for i, rawreq in enumerate(reqs):
        R.mon["datagrams_seen"] += 1
        msg, pdu, problems = decode_request(ctx, rawreq)
        if msg is not None:
            R.mon["datagrams_decoded"] += 1
        if pdu == "discovery":
            R.mon["discovery_probes_seen"] += 1
            continue
        if pdu is not None and not problems:
            if op in ("get", "multiget"):
                problems = check_pdu(pdu, 0xA0, oids)
            elif op in ("getnext", "multigetnext"):
                problems = check_pdu(pdu, 0xA1, oids)
            elif op in ("set", "multiset"):
                problems = check_pdu(pdu, 0xA3, oids, values=args["values"])
            elif op == "bulkget":
                problems = check_pdu(pdu, 0xA5, oids, nonrep=args["nscal"], maxrep=args["maxrep"])
            elif op in ("walk", "table"):
                problems = check_pdu(pdu, 0xA1, oids[:1] if first_pdu else None, allowed=None if first_pdu else revealed)
            elif op in ("bulkwalk", "bulktable"):
                problems = check_pdu(pdu, 0xA5, oids if first_pdu else None, nonrep=0, maxrep=args["maxrep"], allowed=None if first_pdu else revealed)
            first_pdu = False
        if problems:
            R.violation(case, "datagram #%d (%s): %s" % (i, rawreq.hex()[:120], "; ".join(problems[:3])), classify(problems, pdu, oids))
            return
        R.mon["datagrams_match_intent"] += 1
    # behavioural request-id check
    if res[1] == "budget":
        R.violation(case, "request budget exceeded", None)
        return
    if plus_one:
        if res[0] == "ok":
            R.violation(case, "agent answered request-id+1, yet the call returned %r" % (str(res[1])[:120],), None)
        else:
            R.mon["id_plus_one_refused"] += 1
    else:
        if res[0] == "ok":
            R.mon["echo_accepted"] += 1
            if rid is not None or rid_patched is not None:
                R.mon["echo_accepted_swept_id"] += 1
        elif not args.get("may_fail"):
            R.violation(case, "agent echoed the request-id it decoded, yet the call raised %r" % (res[1],), None)


def gen_args(rng, op):
    labels = []

    def oid():
        o, lab = gen_oid(rng)
        labels.append(lab)
        return o

    if op in ("get", "getnext"):
        a = {"oids": [oid()]}
    elif op in ("multiget", "multigetnext"):
        a = {"oids": [oid() for _ in range(rng.randint(1, 8))]}
    elif op == "set":
        a = {"oids": [oid()], "values": [gen_set_value(rng)]}
    elif op == "multiset":
        oids = []
        for _ in range(rng.randint(1, 5)):
            o = oid()
            if o not in oids:
                oids.append(o)
        a = {"oids": oids, "values": [gen_set_value(rng) for _ in oids]}
    elif op == "bulkget":
        n = rng.randint(0, 3)
        m = rng.randint(0 if n else 1, 3)
        a = {"oids": [oid() for _ in range(n + m)], "nscal": n, "maxrep": rng.choice((0, 1, 2, 10, 127, 128, 1000))}
    else:
        db = {(1, 3, 6, 1, 2, 1, 7, 1, c, r): ("int", c * r) for c in (1, 2) for r in range(1, rng.randint(2, 6))}
        db[(1, 3, 6, 1, 2, 1, 8, 0)] = ("int", 0)
        root = (1, 3, 6, 1, 2, 1, 7) if op in ("walk", "bulkwalk", "bulktable") else (1, 3, 6, 1, 2, 1, 7, 1)
        a = {"oids": [root], "db": db, "maxrep": rng.choice((1, 2, 10, 50))}
        labels.append("walkroot")
    a["labels"] = labels
    # GET of arbitrary OIDs against the small default DB: noSuchObject etc. may raise
    a["may_fail"] = op in ("get", "getnext", "multigetnext") or op in ("multiget", "set", "multiset", "bulkget")
    return a


def run(R):
    n = N_CASES[R.tier]
    levels = rig.LEVEL_CYCLE_ALL
    for i in range(n):
        if not R.mine(i):
            continue
        if not R.time_left():
            break
        rng = R.rng(i)
        op = OPS[i % len(OPS)]
        level = levels[(i // len(OPS)) % len(levels)]
        if level == "v1" and op in ("bulkget", "bulkwalk", "bulktable"):
            level = "v2c"
        args = gen_args(rng, op)
        if level == "v1":
            args["values"] = [v if v[0] != "c64" else ("c32", v[1] % 2**32) for v in args.get("values", [])] or args.get("values", [])
        community = "public"
        ctx_name, ctx_engine = b"", b""
        if not level.startswith("v3"):
            if rng.random() < 0.5:
                community = gen_text(rng, rng.choice((0, 1, 5, 32, 126, 127, 128, 129, 255, 256, 300)))
        else:
            if rng.random() < 0.5:
                ctx_name = bytes(rng.getrandbits(8) for _ in range(rng.choice((1, 5, 32, 64))))
            if rng.random() < 0.4:
                ctx_engine = bytes([0x80]) + bytes(rng.getrandbits(8) for _ in range(rng.randint(4, 31)))
                if rng.random() < 0.25:
                    # zero octets only / a leading zero octet / printable digits
                    ctx_engine = rng.choice((b"\x00", bytes(5), bytes(12), bytes(32), b"\x00\x80\x00\x01\x07", b"0", b"00000"))
        rid = rid_patched = None
        r = rng.random()
        if r < 0.35:
            rid = rng.choice(RID_SWEEP)
        elif r < 0.45:
            rid_patched = rng.choice(RID_PATCHED)
        if level.startswith("v3") and rng.random() < 0.25:
            # agent engine ids with runs of zero octets (NUL-padded text ids), short and long
            args["agent_engine"] = rng.choice((b"\x80\x00\x1f\x88\x04ab" + b"\x00" * rng.choice((11, 12, 13, 25)), b"\x80\x00\x00\x00\x05", bytes([0x80]) + bytes(rng.getrandbits(8) for _ in range(31))))
        if level.startswith("v3") and rng.random() < 0.4:
            # what the agent announces as ITS receive limit
            args["agent_max_size"] = rng.choice((484, 1472, 8192, 65000, 2**31 - 1))
        via = None
        if rng.random() < 0.3:
            via = (rng.choice(("configure", "reconfigure")), rng.choice([lv for lv in ("v1", "v2c", "v3-noauth", "v3-md5", "v3-sha1-priv") if lv != level]))
            if rng.random() < 0.5:
                # same community string / same user and passwords: only the family differs
                other = {"v1": "v2c", "v2c": "v1"}.get(level) or rng.choice([lv for lv in rig.V3_LEVELS if lv != level])
                via = (via[0], other, "same")
        if i % 5 == 1:
            # community clients: the SAME family under another community first, and the
            # client has talked before it is switched
            if not level.startswith("v3"):
                via = (("configure", "reconfigure")[(i // 5) % 2], level)
                args["prelude"] = True
        if i % 7 == 3:
            args["refused_configure"] = rng.choice([lv for lv in ("v1", "v2c", "v3-noauth", "v3-md5", "v3-sha1-priv") if lv != level])
        run_case(R, level, op, args, community, ctx_name, ctx_engine, rid, rid_patched, via=via)
    # behavioural id check on an operation that cannot fail for other reasons
    if R.shard == 0 or R.tier == "thorough":
        base = {"oids": [(1, 3, 6, 1, 2, 1, 1, 1, 0)], "labels": ["fixed"]}
        k = 0
        for level in rig.LEVELS:
            for rid in RID_SWEEP + [None]:
                k += 1
                if R.tier == "thorough" and not R.mine(k):
                    continue
                run_case(R, level, "get", dict(base), rid=rid, label="echo")
                run_case(R, level, "get", dict(base, plus_one=True), rid=rid, label="plus-one")
            for ridp in RID_PATCHED:
                k += 1
                if R.tier == "thorough" and not R.mine(k):
                    continue
                run_case(R, level, "get", dict(base), rid_patched=ridp, label="echo-patched")
                run_case(R, level, "multiset" if level != "v1" else "set", dict(base, values=[("int", 5)]), rid_patched=ridp, label="echo-patched-set")
                run_case(R, level, "get", dict(base, plus_one=True), rid_patched=ridp, label="plus-one-patched")
        # labelled x690 classes, once each, so the known findings are always visited
        for cls in ("single-arc", "arc2-big"):
            for j in range(6):
                rng = R.rng("cls", cls, j)
                o, lab = gen_oid(rng, cls)
                run_case(R, "v2c", "get", {"oids": [o], "labels": [lab], "may_fail": True}, label="class")


def replay(R, v):
    from .walkcommon import dec_db

    c = v["case"]

    def fix(x):
        if isinstance(x, list):
            return tuple(fix(y) for y in x)
        if isinstance(x, str) and x.startswith("hex:"):
            return bytes.fromhex(x[4:])
        return x

    args = {k: fix(val) for k, val in c["args"].items()}
    args["oids"] = [tuple(o) for o in args.get("oids", [])]
    if args.get("agent_engine") is not None and not isinstance(args["agent_engine"], bytes):
        args["agent_engine"] = bytes(args["agent_engine"])
    if "values" in args:
        args["values"] = [(val[0], val[1]) for val in args["values"]]
    if c.get("db"):
        args["db"] = dec_db(c["db"])
    run_case(R, c["level"], c["op"], args, c["community"], fix(c["ctx_name"]) or b"", fix(c["ctx_engine"]) or b"", c["rid"], c["rid_patched"], "replay", via=tuple(c["via"]) if c.get("via") else None)
