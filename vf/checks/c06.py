"""
C06 - every well-formed value an agent can send reaches the caller with
exactly the type and value the independent decoder reads from the same
bytes, in every definite BER length form; re-encoding a decoded PDU, scoped
PDU, security-parameter block or SNMPv3 message yields an encoding of the
same content.
"""

from .. import rig  # noqa: F401
from .. import ber, env, gen, typecontracts
from ..rig import OID, World, drive, to_tuple
import x690
from puresnmp.adt import Message, ScopedPDU
from puresnmp.pdu import PDU
from puresnmp_plugins.security.usm import USMSecurityParameters

PROP = "C06"
LEVEL = "exploration"
SHARDS = {"quick": 4, "thorough": 16}
TIME_CAP = {"quick": 50, "thorough": 600}
N_CASES = {"quick": 12000, "thorough": 500000}
RULE = (
    "Responses built by the independent encoder (reference agent) and fed to Client.multiget: "
    "every base/application type and the three exception markers; integers at and around "
    "every byte boundary up to 2^64 (signed) and over the whole unsigned ranges; strings of "
    "length 0..65000 incl. 126/127/128/255/256; OID values with sub-identifiers up to 2^32-1 "
    "(labelled class: first sub-identifier >= 120, i.e. 2.y with y >= 40); binding lists of "
    "0..200; every definite length form (minimal, and 1-4 length octets where the length fits) "
    "chosen independently at each level: value, name, binding, list, integer fields, PDU, "
    "community, scoped PDU, header, security parameters, message; request-id over the "
    "Integer32 range and error-index over Integer32 with error-status 0; agents announcing "
    "msgMaxSize 484 / 1472 / 65507 / 2^31-1; responses of exactly 65505, 65506 and 65507 "
    "octets (the largest UDP/IPv4 payload) on every level; v1, v2c and five v3 "
    "levels. Oracle: result types/values == what vf.ber reads from the same response bytes. "
    "Second half: bytes(Message.decode(x)), bytes(ScopedPDU.decode(x)), "
    "bytes(USMSecurityParameters.decode(x)), bytes(decoded PDU) re-read by vf.ber carry the "
    "same content as x. Non-trivial: >=1 binding or a re-encoding compared; distinct by "
    "(level, value kinds+size classes, forms, list length class)."
    " The decoded PDU CONTENT (request-id, error-status, error-index, number of bindings) is "
    "compared with the wire as well, and a PDU rebuilt from it must - where the library can e"
    "ncode it - carry the same content (bytes() of a decoded x690 object only replays the oct"
    "ets it came from)."
    " A poller re-reads the same 30 objects eight times while their values change (same respo"
    "nse length and layout, earlier datagrams collected)."
    " 20000 (thorough 80000) response PDUs decoded one after the other in one process and com"
    "pared with their octets."
)
ASSUMPTIONS = [
    "well-formed = what vf.ber's strict decoder accepts (definite lengths, <= 4 length octets)",
    "re-encodings need not be byte-identical, only equal in content under the independent decoder",
]
REQUIRED_MONITORS = ("values_delivered_exact", "max_datagram_levels", "nonminimal_forms_used", "reencode_message_ok", "reencode_pdu_ok", "reencode_usm_ok", "reencode_scoped_ok")

FORM_KEYS = ("val", "oid", "vb", "vbl", "int", "pdu", "community", "msg", "usm", "spdu", "header", "sec", "enc")
BOUNDS = [7, 8, 15, 16, 23, 24, 31, 32, 39, 40, 47, 48, 55, 56, 63]


def gen_value(rng, v1=False):
    kinds = ["int", "str", "null", "oid", "ip", "c32", "g32", "tt", "opaque"]
    if not v1:
        kinds += ["c64", "nso", "nsi", "eomv"]
    kind = rng.choice(kinds)
    if kind == "int":
        k = rng.choice(BOUNDS)
        return (kind, rng.choice(((1 << k) - 1, 1 << k, (1 << k) + 1, -(1 << k), -(1 << k) - 1, -(1 << k) + 1, 0, -1, 1, 2**64, -(2**63))))
    if kind in ("c32", "g32", "tt"):
        k = rng.choice((7, 8, 15, 16, 23, 24, 31))
        return (kind, rng.choice(((1 << k) - 1, 1 << k, (1 << k) + 1, 0, 1, 2**32 - 1, 2**32 - 2, rng.randint(0, 2**32 - 1))))
    if kind == "c64":
        k = rng.choice(BOUNDS)
        return (kind, rng.choice(((1 << k) - 1, 1 << k, (1 << k) + 1, 0, 2**64 - 1, 2**64 - 2, rng.randint(0, 2**64 - 1))))
    if kind in ("str", "opaque"):
        n = rng.choice((0, 1, 2, 125, 126, 127, 128, 129, 254, 255, 256, 257, 1000, 65535 // 16) + ((65000,) if rng.random() < 0.08 else ()))
        if n <= 300:
            return (kind, bytes(rng.getrandbits(8) for _ in range(n)))
        return (kind, (bytes(rng.getrandbits(8) for _ in range(97)) * (n // 97 + 1))[:n])
    if kind == "oid":
        r = rng.random()
        if r < 0.06:
            return (kind, (2, rng.choice((40, 47, 48, 999, 2**32 - 1))) + tuple(rng.randint(0, 9) for _ in range(rng.randint(0, 3))))
        if r < 0.15:
            return (kind, (rng.choice((0, 1, 2)), rng.choice((0, 1, 39))) + tuple(rng.choice(gen.SUBID_POOL) for _ in range(rng.randint(0, 5))))
        if r < 0.18:
            return (kind, ())
        return (kind, (1, 3) + tuple(rng.choice(gen.SUBID_POOL) if rng.random() < 0.6 else rng.randint(0, 50) for _ in range(rng.choice((0, 1, 3, 8, 30, 126)))))
    if kind == "ip":
        return (kind, rng.choice((b"\x00\x00\x00\x00", b"\xff\xff\xff\xff", bytes(rng.getrandbits(8) for _ in range(4)))))
    return (kind, None)


def size_class(val):
    kind, v = val
    if isinstance(v, (bytes, tuple)):
        n = len(v)
        return "%s:%s" % (kind, "0" if n == 0 else "<127" if n < 127 else "127-128" if n <= 128 else "<256" if n < 256 else "<65536")
    if isinstance(v, int):
        return "%s:%d" % (kind, (abs(v).bit_length() + 7) // 8)
    return kind


def gen_forms(rng):
    r = rng.random()
    if r < 0.15:
        return None
    if r < 0.4:
        f = rng.choice((1, 2, 3, 4))
        return {k: f for k in FORM_KEYS}
    return {k: rng.choice((None, None, 1, 2, 3, 4)) for k in FORM_KEYS}


def big_first_subid(val):
    return val[0] == "oid" and len(val[1]) >= 2 and val[1][0] == 2 and val[1][1] >= 40


def strip_pdu(p):
    return {k: p[k] for k in ("type", "request_id", "error_status", "error_index", "varbinds")}


def strip_usm(u):
    return {k: v for k, v in u.items() if not k.startswith("_")}


def fresh_pdu_ok(R, case, pdu_obj, ref_pdu):
    """x690 objects keep the octets they were decoded from, so bytes(obj) may simply
    replay them; the DECODED CONTENT is what a caller (and every re-encoding that starts
    from it) works with: its fields must be the ones on the wire, and a PDU object built
    afresh from it must - where the library can encode it at all - carry the same
    content."""
    content = pdu_obj.value
    got = {"request_id": content.request_id, "error_status": content.error_status, "error_index": content.error_index, "n": len(content.varbinds)}
    want = {"request_id": ref_pdu["request_id"], "error_status": ref_pdu["error_status"], "error_index": ref_pdu["error_index"], "n": len(ref_pdu["varbinds"])}
    if got != want:
        R.violation(case, "decoded PDU content carries %r, on the wire %r" % (got, want), None)
        return False
    try:
        re = bytes(type(pdu_obj)(content))
        back = ber.dec_pdu(re, 0, len(re))
    except Exception:  # noqa: BLE001
        # e.g. exception markers: the client never has to encode a response
        R.mon["rebuilt_pdu_not_encodable"] += 1
        return True
    if strip_pdu(back) != strip_pdu(ref_pdu):
        only_big = all(big_first_subid(v) or big_first_subid(("oid", o)) for (o, v), (o2, v2) in zip(ref_pdu["varbinds"], back["varbinds"]) if (o, v) != (o2, v2)) and len(back["varbinds"]) == len(ref_pdu["varbinds"]) and {k: v for k, v in strip_pdu(back).items() if k != "varbinds"} == {k: v for k, v in strip_pdu(ref_pdu).items() if k != "varbinds"}
        R.violation(case, "a PDU rebuilt from its decoded content carries %r, original %r" % (str(strip_pdu(back))[:160], str(strip_pdu(ref_pdu))[:160]), "x690-oid-first-subid-ge-120-decode" if only_big else None)
        return False
    R.mon["reencode_from_content_ok"] += 1
    return True


def reencode_checks(R, case, datagram):
    """bytes(decode(x)) carries the same content as x, for a v3 datagram."""
    try:
        ref = ber.decode_message(datagram)
    except ber.BerError:
        return
    if ref["version"] != 3:
        # community message: the PDU object is the third element
        try:
            seq, _ = x690.decode(datagram)
            pdu_obj = seq[2]
            re = bytes(pdu_obj)
            back = ber.dec_pdu(re, 0, len(re))
        except Exception as exc:  # noqa: BLE001
            R.violation(case, "re-encoding the decoded PDU of %s failed: %r" % (datagram.hex()[:80], exc), None)
            return
        if strip_pdu(back) != strip_pdu(ref["pdu"]):
            R.violation(case, "bytes(decoded PDU) carries %r, original %r" % (str(strip_pdu(back))[:200], str(strip_pdu(ref["pdu"]))[:200]), None)
            return
        if not fresh_pdu_ok(R, case, pdu_obj, ref["pdu"]):
            return
        R.mon["reencode_pdu_ok"] += 1
        return
    try:
        re = bytes(Message.decode(datagram))
        back = ber.decode_message(re)
    except Exception as exc:  # noqa: BLE001
        R.violation(case, "re-encoding Message.decode(%s...) failed: %r" % (datagram.hex()[:60], exc), None)
        return
    same = (
        back["msg_id"] == ref["msg_id"] and back["max_size"] == ref["max_size"] and back["flags"] == ref["flags"]
        and back["sec_model"] == ref["sec_model"] and strip_usm(back["usm"]) == strip_usm(ref["usm"])
        and back.get("encrypted") == ref.get("encrypted")
        and ("scoped" in back) == ("scoped" in ref)
        and ("scoped" not in ref or (back["scoped"]["ctx_engine"], back["scoped"]["ctx_name"], strip_pdu(back["scoped"]["pdu"])) == (ref["scoped"]["ctx_engine"], ref["scoped"]["ctx_name"], strip_pdu(ref["scoped"]["pdu"])))
    )
    if not same:
        R.violation(case, "bytes(Message.decode(x)) differs in content from x=%s..." % datagram.hex()[:80], None)
        return
    R.mon["reencode_message_ok"] += 1
    try:
        re = bytes(USMSecurityParameters.decode(ref["usm_raw"]))
        back = ber.dec_usm_params(re)
    except Exception as exc:  # noqa: BLE001
        R.violation(case, "re-encoding USMSecurityParameters of %s failed: %r" % (ref["usm_raw"].hex(), exc), None)
        return
    if strip_usm(back) != strip_usm(ref["usm"]):
        R.violation(case, "bytes(USMSecurityParameters.decode(x)) differs in content", None)
        return
    R.mon["reencode_usm_ok"] += 1
    if "scoped" in ref:
        s0, s1 = ref["scoped_span"]
        x = datagram[s0:s1]
        try:
            sp = ScopedPDU.decode(x)
            re = bytes(sp)
            back = ber.dec_scoped_pdu(re, 0, len(re))
            re2 = bytes(sp.data)
            back2 = ber.dec_pdu(re2, 0, len(re2))
        except Exception as exc:  # noqa: BLE001
            R.violation(case, "re-encoding ScopedPDU.decode(%s...) failed: %r" % (x.hex()[:60], exc), None)
            return
        r = ref["scoped"]
        if (back["ctx_engine"], back["ctx_name"], strip_pdu(back["pdu"])) != (r["ctx_engine"], r["ctx_name"], strip_pdu(r["pdu"])):
            R.violation(case, "bytes(ScopedPDU.decode(x)) differs in content", None)
            return
        R.mon["reencode_scoped_ok"] += 1
        if strip_pdu(back2) != strip_pdu(r["pdu"]):
            R.violation(case, "bytes(decoded PDU) differs in content", None)
            return
        if not fresh_pdu_ok(R, case, sp.data, r["pdu"]):
            return
        R.mon["reencode_pdu_ok"] += 1


def run_case(R, level, values, forms, rid=None, err_index=0, label="gen", max_size=65507):
    v1 = level == "v1"
    oids = [(1, 3, 6, 1, 4, 1, 4242, 1, i) for i in range(len(values))]
    if len(values) > 1 and hash(repr(values[0])) % 2:
        # not in ascending OID order: positions must follow the REQUEST order
        oids = oids[::-1]
    db = dict(zip(oids, values))
    kw = {"resp_forms": forms, "v3_resp_forms": forms, "max_size": max_size}
    saved = env.CLOCK.now
    if rid is not None:
        # before the world exists: the agent's engine clock is the same clock
        env.CLOCK.freeze(rid)
    w = World(level, db, agent_kwargs=kw)
    w.prime()
    w.seam.budget = 4
    if err_index:
        def hook(req, resp):
            out = dict(resp)
            out["error_index"] = err_index
            return out
        w.agent.pdu_hook = hook
    case = {"level": level, "values": rig.jsonable([[v[0], v[1]] for v in values]), "forms": forms, "rid": rid, "err_index": err_index, "label": label, "max_size": max_size}
    try:
        try:
            res = rig.outcome(lambda: drive(w.client.multiget([OID(o) for o in oids])))
        except rig.BudgetExceeded:
            res = ("exc", "budget")
    finally:
        env.CLOCK.freeze(saved)
    kinds = tuple(sorted({size_class(v) for v in values}))
    fkey = None if forms is None else tuple(sorted((k, v) for k, v in forms.items() if v is not None))
    n = len(values)
    fp = ("c06", level, kinds, fkey, 0 if n == 0 else 1 if n == 1 else 2 if n < 20 else 3, rid is not None, err_index != 0, max_size)
    resp = w.seam.responses[-1] if w.seam.responses else None
    R.case(fp, resp is not None, sample={**case, "response": resp.hex()[:300] if resp else None} if R.evaluations % 499 == 0 else None)
    if resp is None:
        R.violation(case, "no response was produced (harness) / request refused: %r" % (res[1],), None)
        return
    if forms and any(v for v in forms.values()):
        R.mon["nonminimal_forms_used"] += 1
    # what the independent decoder reads from the same bytes
    rec = next((r for r in reversed(w.agent.requests) if "response_pdu" in r), None)
    wire = None
    try:
        m = ber.decode_message(resp)
        if "pdu" in m:
            wire = m["pdu"]["varbinds"]
        elif "scoped" in m:
            wire = m["scoped"]["pdu"]["varbinds"]
    except ber.BerError as exc:
        R.inconclusive("reference agent produced bytes its own strict decoder refuses: %s" % exc)
        return
    sent = rec["response_pdu"]["varbinds"] if rec else None
    if wire is None:
        wire = sent  # encrypted: the agent's own record of what it encoded
    elif sent is not None and wire != sent:
        R.inconclusive("independent encoder/decoder disagree with each other")
        return
    if res[0] != "ok":
        R.violation(case, "well-formed response refused with %r" % (res[1],), None)
        return
    try:
        # values are decoded lazily: reading them is part of "reaches the caller"
        got = [to_tuple(v) for v in res[1]]
    except Exception as exc:  # noqa: BLE001 - whatever the tree under test raises
        R.violation(case, "a value of a well-formed response was delivered but cannot be read: %r" % (exc,), None)
        return
    want = [v for _, v in wire]
    if got != want:
        bad = [i for i, (g, x) in enumerate(zip(got, want)) if g != x]
        only_big = bool(bad) and len(got) == len(want) and all(big_first_subid(want[i]) for i in bad)
        R.violation(
            case,
            "delivered %r, independent decoder reads %r (positions %r)" % (str([got[i] for i in bad[:3]])[:200], str([want[i] for i in bad[:3]])[:200], bad[:5]),
            "x690-oid-first-subid-ge-120-decode" if only_big else None,
        )
        return
    R.mon["values_delivered_exact"] += 1
    R.mon["bindings_delivered"] += len(got)
    if len(resp) >= 65500:
        R.mon["responses_of_%d_octets" % len(resp)] += 1
    reencode_checks(R, case, resp)
    for req in w.seam.requests[-1:]:
        reencode_checks(R, case, req)
    return len(resp)


def many_pdus(R):
    """One process decodes tens of thousands of PDUs in a row (a poller, a trap receiver);
    each goes out of use before the next arrives, so object addresses repeat: PDU number
    20000 still decodes to its own content."""
    n = 20000 if R.tier == "quick" else 80000
    for i in range(n):
        rid = 1_000_000 + i
        pdu = {"type": ber.PDU_RESPONSE, "request_id": rid, "error_status": 0, "error_index": 0, "varbinds": [((1, 3, 6, 1, 4, 1, 4242, 4, i % 97), ("int", i)), ((1, 3, 6, 1, 4, 1, 4242, 4, 200), ("str", b"%d" % i))]}
        datagram = ber.enc_community_message(1, b"public", pdu)
        try:
            seq, _ = x690.decode(datagram)
            content = seq[2].value
            got = (content.request_id, [(rig.oid_t(vb.oid), to_tuple(vb.value)) for vb in content.varbinds])
        except Exception as exc:  # noqa: BLE001
            R.violation({"level": "v2c", "values": [], "forms": None, "rid": rid, "err_index": 0, "label": "many-pdus", "max_size": 65507}, "PDU number %d of this process could not be decoded: %r" % (i + 1, exc), None)
            return
        if got != (rid, pdu["varbinds"]):
            R.violation({"level": "v2c", "values": [], "forms": None, "rid": rid, "err_index": 0, "label": "many-pdus", "max_size": 65507}, "PDU number %d of this process decodes to %r, its octets say %r" % (i + 1, str(got)[:160], str((rid, pdu["varbinds"]))[:160]), None)
            return
        del seq, content
    R.evaluations += n
    R.mon["pdus_decoded_in_a_row"] += n


def repoll(R):
    """A poller asks for the same 30 objects again and again while their values change;
    every response has the same length and layout, and the datagrams of earlier polls are
    gone (freed) by the time the next one arrives - anything remembered about a datagram
    by its address or position would hand out the previous poll's values."""
    import gc
    import random as _random

    rng = _random.Random(4242)
    oids = [(1, 3, 6, 1, 4, 1, 4242, 3, i) for i in range(30)]

    def values(poll):
        out = []
        for i in range(30):
            k = i % 6
            if k == 0:
                out.append(("ip", bytes(rng.randint(1, 254) for _ in range(4))))
            elif k == 1:
                out.append(("int", rng.randint(2**24, 2**31 - 1)))
            elif k == 2:
                out.append(("c32", rng.randint(2**24, 2**31 - 1)))
            elif k == 3:
                out.append(("tt", rng.randint(2**24, 2**31 - 1)))
            elif k == 4:
                out.append(("str", bytes(rng.randint(32, 126) for _ in range(8))))
            else:
                out.append(("oid", (1, 3, 6, 1, 4, 1, rng.randint(1, 127), rng.randint(1, 127), rng.randint(1, 127))))
        return out

    for level in ("v1", "v2c", "v3-md5", "v3-sha1-priv"):
        w = World(level, dict(zip(oids, values(0))))
        w.prime()
        sizes = set()
        for poll in range(1, 9):
            vals = values(poll)
            w.agent.db.update(dict(zip(oids, vals)))
            w.seam.reset(budget=4)
            w.agent.requests.clear()
            gc.collect()
            res = rig.outcome(lambda: drive(w.client.multiget([OID(o) for o in oids])))
            case = {"level": level, "values": rig.jsonable([[v[0], v[1]] for v in vals]), "forms": None, "rid": None, "err_index": 0, "label": "repoll-%d" % poll, "max_size": 65507}
            R.case(("c06-repoll", level, poll), True)
            if res[0] != "ok":
                R.violation(case, "poll %d refused: %r" % (poll, res[1]), None)
                break
            sizes.add(len(w.seam.responses[-1]))
            got = [to_tuple(v) for v in res[1]]
            del res
            if got != vals:
                bad = [i for i, (g, x) in enumerate(zip(got, vals)) if g != x]
                R.violation(case, "poll %d delivered %r at positions %r, the agent sent %r" % (poll, [got[i] for i in bad[:3]], bad[:5], [vals[i] for i in bad[:3]]), None)
                break
            R.mon["repolls_exact"] += 1
        R.notes["set:repoll_response_sizes_%s" % level] = sorted(sizes)


def run(R):
    contracts = typecontracts.attach_all()
    n = N_CASES[R.tier]
    levels = rig.LEVEL_CYCLE_ALL
    for i in range(n):
        if not R.mine(i):
            continue
        if not R.time_left():
            break
        rng = R.rng(i)
        level = levels[i % len(levels)]
        v1 = level == "v1"
        nvals = rng.choice((0, 1, 1, 2, 3, 5, 8, 20) + ((200,) if rng.random() < 0.05 else ()))
        values = [gen_value(rng, v1) for _ in range(nvals)]
        if sum(len(v[1]) for v in values if isinstance(v[1], bytes)) > 60000:
            values = values[:1]
        forms = gen_forms(rng)
        rid = None
        err_index = 0
        r = rng.random()
        if r < 0.2:
            rid = rng.choice((0, 1, 127, 128, 255, 256, 65535, 65536, 2**24 - 1, 2**24, 2**31 - 1))
        elif r < 0.3:
            err_index = rng.choice((1, 2, 127, 128, 255, 256, 2**31 - 1, -1, -(2**31)))
        # what the agent announces as ITS receive limit says nothing about its responses
        max_size = rng.choice((65507, 65507, 484, 1472, 2**31 - 1))
        run_case(R, level, values, forms, rid, err_index, max_size=max_size)
    # one value of every kind through every uniform form, every level
    if R.shard == 0:
        rng = R.rng("grid")
        grid = [("int", -129), ("str", b"x" * 127), ("str", b"y" * 128), ("null", None), ("oid", (1, 3, 6, 1, 4, 1, 2**32 - 1, 128)), ("ip", b"\x7f\x00\x00\x01"),
                ("c32", 2**32 - 1), ("g32", 2**31), ("tt", 128), ("opaque", b"\x9f\x78\x04\x00\x00\x00\x00"), ("c64", 2**64 - 1), ("nso", None), ("nsi", None), ("eomv", None)]
        for level in rig.LEVELS:
            vals = [v for v in grid if not (level == "v1" and v[0] in ("c64", "nso", "nsi", "eomv"))]
            for f in (None, 1, 2, 3, 4):
                run_case(R, level, vals, None if f is None else {k: f for k in FORM_KEYS}, label="grid")
        for val in (("oid", (2, 40, 1)), ("oid", (2, 999, 3))):
            run_case(R, "v2c", [val], None, label="class")
    if R.shard == 2 % R.nshards:
        # the largest datagrams UDP over IPv4 can carry: 65507 octets and the two sizes below
        for level in rig.LEVELS:
            x = 35000
            hit = set()
            for _ in range(8):
                size = run_case(R, level, [("str", b"a" * 30000), ("str", b"b" * x)], None, label="max-datagram")
                if size is None:
                    break
                hit.add(size)
                want = next((t for t in (65507, 65506, 65505) if t not in hit), None)
                if want is None:
                    break
                x += want - size
            if not {65505, 65506, 65507} <= hit:
                R.mon["max_datagram_sizes_not_reached"] += 1
            else:
                R.mon["max_datagram_levels"] += 1
    if R.shard == 3 % R.nshards:
        repoll(R)
    if R.shard == 1 % R.nshards:
        many_pdus(R)
    typecontracts.report(R, contracts, decide=False)
    for c in contracts:
        c.detach()


def replay(R, v):
    c = v["case"]
    if str(c.get("label", "")).startswith("repoll"):
        repoll(R)
        return
    if c.get("label") == "many-pdus":
        many_pdus(R)
        return

    def fix(x):
        if isinstance(x, list):
            return tuple(fix(y) for y in x)
        if isinstance(x, str) and x.startswith("hex:"):
            return bytes.fromhex(x[4:])
        return x

    values = [(k, fix(val)) for k, val in c["values"]]
    run_case(R, c["level"], values, c["forms"], c["rid"], c["err_index"], "replay", max_size=c.get("max_size", 65507))
