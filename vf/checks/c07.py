"""
C07 - only the response to the request actually sent is ever returned:
request-id mismatch => InvalidResponseId, a conformant echoing agent is
always accepted however the clock advances, community replies with another
community string or version are refused.
"""

from .. import rig  # noqa: F401
from .. import ber, budget, env
from ..rig import OID, World, drive, drive_agen
from puresnmp.exc import InvalidResponseId

PROP = "C07"
LEVEL = "exploration"
SHARDS = {"quick": 4, "thorough": 16}
TIME_CAP = {"quick": 50, "thorough": 600}
N_CASES = {"quick": 3000, "thorough": 150000}
RULE = (
    "Stepping clock: EVERY read of time.time advances by an increment drawn from "
    "{0,0.3,0.7,1,2.5,1000}, so a second boundary falls between any two reads. Operations "
    "get, multiget, getnext, multigetnext, set, multiset, bulkget, walk, multiwalk, bulkwalk, "
    "table, bulktable on v1/v2c/five v3 levels incl. the discovery exchange. (a) echo agent: "
    "must be accepted, result correct, also when it rebooted since discovery (authentic "
    "notInTimeWindow report, re-synchronisation, retry); (b) perturbing agent: response request-id = id + d, "
    "d in {+-1, +-2^31, random} or an absolute id in {0, 1, -1, 2^31-1} on request k of the operation => InvalidResponseId and no "
    "data; discovery reply with perturbed message id => refused, no request follows; (c) "
    "community replies with another community / version number => refused (any exception). "
    "Seam monitor: (request-id decoded from the datagram sent, response request-id) per "
    "exchange vs outcome. Distinct by (op, level, fault, k, clock step pattern)."
    " One case in four creates the community client for the OTHER version with the same commu"
    "nity string and switches it by configure()."
    " Foreign error responses vary their error-index (0, 1, beyond the list, -1) and bindings"
    " (echoed, absent)."
    " Scenarios: two requests with different ids in flight on one client get each other's res"
    "ponses (neither may return data); 40 reconfigure(credentials=<short-lived object>) block"
    "s with a collection between them (echo of the current community accepted, the previous o"
    "ne refused)."
    " Lenient walks (errors='warn') are operations too: a foreign request-id, community or ve"
    'rsion is refused there like anywhere. Three seconds after a refused or lost discovery re'
    'ply the same client is accepted by a conformant agent. A later request that carries the '
    'id of a response refused earlier gets ITS answer (the device holds other values by then)'
    '.'
)
ASSUMPTIONS = [
    "the agent's engine clock is a separate frozen clock, so stepping the client's clock does not touch timeliness (C12)",
    "hostile responses run under the logical step budget; an aborted trial returns nothing to the caller",
]
REQUIRED_MONITORS = ("echo_accepted", "echo_accepted_clock_moved_during_op", "perturbed_refused", "perturbed_error_response_refused", "community_fault_refused", "discovery_msgid_refused", "community_variants_refused", "late_duplicates_refused")

OPS = ("get", "multiget", "getnext", "multigetnext", "set", "multiset", "bulkget", "walk", "multiwalk", "bulkwalk", "table", "bulktable",
       # the lenient walks (errors="warn" forgives a device that does not advance - nothing else)
       "walk-warn", "multiwalk-warn", "pywalk-warn")
STEPS = (0, 0.3, 0.7, 1, 2.5, 1000)
DB = {(1, 3, 6, 1, 2, 1, 5, 1, c, r): ("int", 10 * c + r) for c in (1, 2) for r in (1, 2, 3)}
DB[(1, 3, 6, 1, 2, 1, 6, 1, 0)] = ("str", b"tail")
KEYS = sorted(DB)


def call(w, op):
    c = w.client
    if op == "get":
        return drive(c.get(OID(KEYS[0])))
    if op == "multiget":
        return drive(c.multiget([OID(k) for k in KEYS[:3]]))
    if op == "getnext":
        return drive(c.getnext(OID(KEYS[0])))
    if op == "multigetnext":
        return drive(c.multigetnext([OID(k) for k in KEYS[:2]]))
    if op == "set":
        return drive(c.set(OID(KEYS[1]), rig.from_tuple(("int", 99))))
    if op == "multiset":
        return drive(c.multiset({OID(KEYS[1]): rig.from_tuple(("int", 98)), OID(KEYS[2]): rig.from_tuple(("str", b"v"))}))
    if op == "bulkget":
        return drive(c.bulkget([OID(KEYS[0])], [OID((1, 3, 6, 1, 2, 1, 5))], max_list_size=3))
    if op == "walk":
        return drive_agen(c.walk(OID((1, 3, 6, 1, 2, 1, 5))), limit=50)
    if op == "multiwalk":
        return drive_agen(c.multiwalk([OID((1, 3, 6, 1, 2, 1, 5)), OID((1, 3, 6, 1, 2, 1, 6))]), limit=50)
    if op == "walk-warn":
        return drive_agen(c.walk(OID((1, 3, 6, 1, 2, 1, 5)), errors=rig.lenient()), limit=50)
    if op == "multiwalk-warn":
        return drive_agen(c.multiwalk([OID((1, 3, 6, 1, 2, 1, 5)), OID((1, 3, 6, 1, 2, 1, 6))], errors=rig.lenient()), limit=50)
    if op == "pywalk-warn":
        return drive_agen(w.py.walk("1.3.6.1.2.1.5", errors=rig.lenient()), limit=50)
    if op == "bulkwalk":
        return drive_agen(c.bulkwalk([OID((1, 3, 6, 1, 2, 1, 5))], bulk_size=2), limit=50)
    if op == "table":
        return drive(c.table(OID((1, 3, 6, 1, 2, 1, 5, 1))))
    if op == "bulktable":
        return drive(c.bulktable(OID((1, 3, 6, 1, 2, 1, 5)), bulk_size=2))
    raise ValueError(op)


def norm(op, res):
    if op in ("get",):
        return rig.to_tuple(res)
    if op in ("set",):
        return rig.to_tuple(res)
    if op == "multiget":
        return [rig.to_tuple(v) for v in res]
    if op == "getnext":
        return (rig.oid_t(res.oid), rig.to_tuple(res.value))
    if op in ("multigetnext", "walk", "multiwalk", "bulkwalk", "walk-warn", "multiwalk-warn"):
        return [(rig.oid_t(vb.oid), rig.to_tuple(vb.value)) for vb in res]
    if op == "pywalk-warn":
        return [(rig.oid_t(vb.oid), ("py", vb.value)) for vb in res]
    if op == "multiset":
        return {rig.oid_t(k): rig.to_tuple(v) for k, v in res.items()}
    if op == "bulkget":
        return ([(rig.oid_t(k), rig.to_tuple(v)) for k, v in res.scalars.items()], [(rig.oid_t(k), rig.to_tuple(v)) for k, v in res.listing.items()])
    if op in ("table", "bulktable"):
        return sorted([{k: (v if k == "0" else rig.to_tuple(v)) for k, v in row.items()} for row in res], key=lambda r: r["0"])
    raise ValueError(op)


_REF = {}


def reference(level, op):
    """Result of op on a quiet world (frozen clock)."""
    key = (level if level == "v1" else "v2", op)
    if key not in _REF:
        w = World("v1" if level == "v1" else "v2c", DB)
        _REF[key] = norm(op, call(w, op))
    return _REF[key]


def id_pairs(w):
    """(request-id sent, request-id answered) per exchange, from the agent's independent decoding."""
    out = []
    for rec in w.agent.requests:
        if "pdu" in rec and "response_pdu" in rec:
            out.append((rec["pdu"]["request_id"], rec["response_pdu"]["request_id"]))
    return out


VIA = [False]  # set by run(): community clients reach their credentials through configure()


def run_case(R, level, op, fault, k, delta, step_seed, prime, err=None, base=1_700_000_000.0, via=None):
    import random

    if via is None and VIA[0] and level in ("v1", "v2c"):
        # the client was created for the OTHER community-based version with the same
        # community string and switched by configure(): it must speak (and demand) the
        # version of its current credentials
        via = ["configure", "v2c" if level == "v1" else "v1", "same"]

    if level == "v1" and op in ("bulkget", "bulkwalk", "bulktable"):
        return
    case = {"level": level, "op": op, "fault": fault, "k": k, "delta": delta, "step_seed": step_seed, "prime": prime, "err": err, "base": base, "via": via}
    agent_clock = env.Clock()
    env.CLOCK.freeze(base)
    w = World(level, DB, clock=agent_clock, via=tuple(via) if via else None)
    if via:
        R.mon["clients_switched_between_community_versions"] += 1
    if prime:
        w.prime()
    w.seam.budget = 60
    srng = random.Random(step_seed)
    reads0 = env.CLOCK.reads
    if step_seed is not None:
        env.CLOCK.stepping(lambda: srng.choice(STEPS))
    state = {"n": 0, "applied": False}
    if fault == "reboot":
        # not a fault of the agent at all: it rebooted since discovery, answers the
        # first attempt with an authentic notInTimeWindow report and echoes ids
        w.agent.reboot()
        state["applied"] = True
    if fault == "rid":
        def hook(req, resp):
            i = state["n"]
            state["n"] += 1
            if i != k:
                return resp
            out = dict(resp)
            if isinstance(delta, (list, tuple)):
                if delta[1] == resp["request_id"]:
                    return resp
                out["request_id"] = delta[1]  # an absolute id: 0, 1, -1, ...
            else:
                out["request_id"] = resp["request_id"] + delta
            if err:
                # an ERROR response that does not belong to the request; error-index 0
                # (tooBig / genErr style), 1, beyond the list or negative, bindings
                # echoed or absent
                sel = (step_seed or 0) + k + (err if isinstance(err, int) else 0)
                vbs = [(o, ("null", None)) for o, _ in req["varbinds"]] if (sel // 4) % 3 else []
                out["error_status"] = err
                out["error_index"] = (0, 1, len(vbs) + 2, -1)[sel % 4]
                out["varbinds"] = vbs
            state["applied"] = True
            return out
        w.agent.pdu_hook = hook
    elif fault in ("community", "version", "disco"):
        inner = w.agent.handle
        if err:
            cnt = {"n": 0}

            def errhook(req, resp):
                i = cnt["n"]
                cnt["n"] += 1
                if i != k:
                    return resp
                out = dict(resp)
                out["error_status"] = err
                out["error_index"] = 1
                out["varbinds"] = [(o, ("null", None)) for o, _ in req["varbinds"]]
                return out

            w.agent.pdu_hook = errhook

        def responder(data):
            resp = inner(data)
            if resp is None:
                return None
            i = state["n"]
            state["n"] += 1
            if i != k:
                return resp
            m = ber.decode_message(resp)
            if fault == "community":
                state["applied"] = True
                if isinstance(delta, (list, tuple)):
                    return ber.enc_community_message(m["version"], COMMUNITY_VARIANTS[delta[1]](m["community"]), m["pdu"])
                return ber.enc_community_message(m["version"], m["community"] + b"x" if delta > 0 else b"", m["pdu"])
            if fault == "version":
                state["applied"] = True
                return ber.enc_community_message(1 - m["version"] if delta > 0 else 2, m["community"], m["pdu"])
            if fault == "disco" and m["version"] == 3 and m["scoped"]["pdu"]["type"] == ber.PDU_REPORT:
                state["applied"] = True
                if delta == 0:
                    return None  # the discovery reply is lost: the sender's Timeout
                out = {"msg_id": m["msg_id"] + delta, "max_size": m["max_size"], "flags": m["flags"], "sec_model": 3, "usm": {kk: v for kk, v in m["usm"].items() if not kk.startswith("_")},
                       "scoped": (m["scoped"]["ctx_engine"], m["scoped"]["ctx_name"], m["scoped"]["pdu"])}
                return ber.enc_v3_message(out)
            return resp

        w.set_responder(responder)
    try:
        try:
            kind, val, steps = budget.run_budgeted(lambda: call(w, op), 300000, light=True)
        except rig.BudgetExceeded:
            kind, val = "exc", "request budget exceeded"
    finally:
        reads = env.CLOCK.reads - reads0
        env.CLOCK.freeze(1_700_000_000.0)
    fp = ("c07", level, op, fault, k, None if delta is None else (tuple(delta) if isinstance(delta, (list, tuple)) else (delta > 0, abs(delta) > 2)), step_seed is not None and step_seed % 13, prime, err, base)
    R.case(fp, fault is None or state["applied"], sample={**case, "clock_reads": reads, "outcome": kind if kind != "exc" else repr(val)} if R.evaluations % 397 == 0 else None)
    R.mon["clock_reads_during_ops"] += reads
    pairs = id_pairs(w)
    R.mon["exchanges_logged"] += len(pairs)
    if kind == "over":
        R.mon["aborted_by_budget"] += 1
        return
    # seam monitor: a normal return implies equal ids on all its exchanges
    if kind == "ok" and any(a != b for a, b in pairs):
        R.violation(case, "call returned normally although an exchange had request-id %r answered with %r" % next((a, b) for a, b in pairs if a != b), None)
        return
    if fault in (None, "reboot"):
        if kind != "ok":
            mech = None
            if op in ("set", "multiset") and isinstance(val, InvalidResponseId) and step_seed is not None:
                mech = "set-two-clock-reads"
            R.violation(case, "conformant echoing agent refused: %r (request/response ids %r)" % (val, pairs[-2:]), mech)
            return
        if norm(op, val) != reference(level, op):
            R.violation(case, "echo agent accepted but result differs from the quiet run", None)
            return
        R.mon["echo_accepted"] += 1
        if fault == "reboot":
            R.mon["echo_accepted_after_reboot_resync"] += 1
        if step_seed is not None and reads >= 2:
            R.mon["echo_accepted_clock_moved_during_op"] += 1
        return
    if not state["applied"]:
        R.mon["fault_not_reached"] += 1
        return
    if kind == "ok":
        mech = None
        if fault == "rid" and err:
            mech = "error-response-id-unchecked"
        R.violation(case, "%s fault on exchange %d%s, yet the call returned %r" % (fault, k, " (error response, status %d)" % err if err else "", str(val)[:160]), mech)
        return
    if fault == "rid":
        if not isinstance(val, InvalidResponseId):
            R.violation(case, "request-id %s%s: expected InvalidResponseId, got %r" % ("replaced by %d" % delta[1] if isinstance(delta, (list, tuple)) else "off by %d" % delta, " on an error response (status %d)" % err if err else "", val), "error-response-id-unchecked" if err else None)
            return
        R.mon["perturbed_refused"] += 1
        if err:
            R.mon["perturbed_error_response_refused"] += 1
        mism = [b for a, b in pairs if a != b]
        if not err and op in ("get", "getnext", "multiget") and mism and 0 < mism[0] < 2**31:
            # the path after the refusal: LATER the same client sends a request whose id
            # happens to be the one the refused response carried (ids are clock values);
            # by then the device holds other values.  The caller gets the answer to THAT
            # request, not the response refused earlier.
            newdb = dict(DB)
            for kk in KEYS[:4]:
                newdb[kk] = ("int", 4000 + KEYS.index(kk))
            env.CLOCK.freeze(float(mism[0]))
            try:
                w.agent.pdu_hook = None
                w.agent.set_db(newdb)
                w.seam.reset(budget=60)
                w.agent.requests.clear()
                try:
                    kind2, val2, _ = budget.run_budgeted(lambda: call(w, op), 300000, light=True)
                except rig.BudgetExceeded:
                    kind2, val2 = "exc", "request budget exceeded"
                sent_ids = [a for a, _ in id_pairs(w)]
                expect = norm(op, call(World("v1" if level == "v1" else "v2c", newdb), op))
            finally:
                env.CLOCK.freeze(1_700_000_000.0)
            if kind2 == "over":
                return
            if mism[0] not in sent_ids:
                R.mon["later_request_did_not_reuse_the_refused_id"] += 1
            elif kind2 != "ok" or norm(op, val2) != expect:
                R.violation(case, "a later request with id %d (the id a refused response carried earlier) returned %r; the agent answered %r" % (mism[0], str(norm(op, val2) if kind2 == "ok" else val2)[:160], str(expect)[:160]), None)
                return
            else:
                R.mon["later_request_with_the_refused_id_got_its_own_answer"] += 1
    elif fault == "disco":
        if delta != 0 and not isinstance(val, InvalidResponseId):
            R.violation(case, "discovery reply with message id off by %d: expected InvalidResponseId, got %r" % (delta, val), None)
            return
        after = [r for r in w.agent.requests if not r.get("discovery")]
        if any("pdu" in r for r in after):
            R.violation(case, "a request followed the refused discovery reply", None)
            return
        R.mon["discovery_msgid_refused" if delta != 0 else "discovery_reply_lost"] += 1
        # the path after the failed discovery: seconds later the same client asks again and
        # the agent is its conformant self - the new discovery carries ids of its own and
        # its echo is accepted
        env.CLOCK.freeze(base + 3.0)
        try:
            w.set_responder(w.agent.handle)
            w.agent.pdu_hook = None
            w.seam.reset(budget=60)
            w.agent.requests.clear()
            try:
                kind2, val2, _ = budget.run_budgeted(lambda: call(w, op), 300000, light=True)
            except rig.BudgetExceeded:
                kind2, val2 = "exc", "request budget exceeded"
        finally:
            env.CLOCK.freeze(1_700_000_000.0)
        if kind2 == "over":
            return
        if kind2 != "ok" or norm(op, val2) != reference(level, op):
            R.violation(case, "three seconds after a %s discovery the same client asked again and a conformant echoing agent was refused: %r (ids %r)" % ("refused" if delta else "lost", val2, id_pairs(w)[-2:]), None)
            return
        R.mon["accepted_after_a_failed_discovery"] += 1
    else:
        R.mon["community_fault_refused"] += 1


def run(R):
    n = N_CASES[R.tier]
    levels = rig.LEVEL_CYCLE_ALL
    for i in range(n):
        if not R.mine(i):
            continue
        if not R.time_left():
            break
        rng = R.rng(i)
        VIA[0] = i % 4 == 1
        op = OPS[i % len(OPS)]
        level = levels[(i // len(OPS)) % len(levels)]
        v3 = level.startswith("v3")
        r = rng.random()
        step_seed = rng.randint(0, 10**9) if rng.random() < 0.8 else None
        prime = rng.random() < 0.5
        err = rng.choice((None, None, 2, 5, 1, 17, 18, 19, 255, -1, 2**31 - 1))
        # where the clock STANDS matters too: ids around and beyond 2^31 (2038), 2^32
        base = rng.choice((1_700_000_000.0,) * 5 + (2.0**31 - 2, 2.0**31 + 5, 2.0**32 - 3, 2.0**32 + 10, 5.0))
        if level in rig.AUTH_LEVELS and r < 0.12:
            run_case(R, level, op, "reboot", 0, None, step_seed, True, base=base)
        elif r < 0.45:
            run_case(R, level, op, None, 0, None, step_seed, prime, base=base)
        elif r < 0.8:
            delta = rng.choice((1, -1, 2**31, -(2**31), rng.randint(-(2**31), 2**31) or 7, ("abs", 0), ("abs", 0), ("abs", 1), ("abs", -1), ("abs", 2**31 - 1)))
            run_case(R, level, op, "rid", rng.choice((0, 0, 1, 2)), delta, step_seed, True, err, base=base)
        elif v3:
            run_case(R, level, op, "disco", 0, rng.choice((1, -1, 12345, 2**31, -(2**31))), step_seed, False, base=base)
        else:
            run_case(R, level, op, rng.choice(("community", "version")), rng.choice((0, 0, 1)), rng.choice((1, -1)), step_seed, True, err)
    if R.shard == 0:
        # SNMPv1 ends a walk with an ERROR response (noSuchName): that response, too,
        # must pass the community / version / request-id checks before it ends anything
        VIA[0] = False
        swapped_replies(R)
        temporary_credentials(R)
        community_variants(R)
        late_duplicate(R)
        for op in ("walk", "multiwalk", "table"):
            for fault, delta in (("community", 1), ("community", -1), ("version", 1), ("version", -1), ("rid", 1), ("rid", ("abs", 0))):
                for k in (1, 2):
                    run_case(R, "v1", op, fault, k, delta, 12345, True, 2)
        # a refused response's id comes up again as the id of a later request
        for level in ("v1", "v2c", "v3-noauth", "v3-md5", "v3-sha1-priv"):
            for op in ("get", "multiget", "getnext"):
                for delta in (1, 5, 3600, -2):
                    run_case(R, level, op, "rid", 0, delta, None, True, None)
        # a failed first discovery (refused message id, lost reply), then the same client again
        for level in rig.V3_LEVELS:
            for op in ("get", "set", "walk", "bulkget"):
                for delta in (0, 1, -1):
                    run_case(R, level, op, "disco", 0, delta, None, False, None)
        # lenient walks: a foreign request-id on the first or a later response is refused
        # like anywhere else (what "warn" forgives is a device that does not advance)
        for op in ("walk-warn", "multiwalk-warn", "pywalk-warn"):
            for level in ("v1", "v2c", "v3-md5", "v3-sha1-priv"):
                for k in (0, 1, 2):
                    for delta in (1, -1, ("abs", 0), 2**31):
                        run_case(R, level, op, "rid", k, delta, None, True, None)
                        R.mon["lenient_walks_with_a_foreign_request_id"] += 1
                for fault in ("community", "version"):
                    if not level.startswith("v3"):
                        run_case(R, level, op, fault, 1, 1, None, True, None)
    budget.MONITOR.off()


# communities that differ from the client's by octets a lossy text comparison would lose:
# bytes that are not valid UTF-8, surrounding white-space, letter case, a NUL
COMMUNITY_VARIANTS = (
    lambda c: c + b"\xff",
    lambda c: b"\xfe" + c,
    lambda c: c[:3] + b"\xc3" + c[3:],
    lambda c: c + b" ",
    lambda c: c + b"\n",
    lambda c: b" " + c,
    lambda c: b"\t" + c + b"\r\n",
    lambda c: c + b"\x00",
    lambda c: c.swapcase(),
    lambda c: c[:-1],
    lambda c: c + c,
)


def community_variants(R):
    """Responses that are right in every respect except that their community differs from
    the client's by octets a text comparison would lose: refused on both versions, on the
    first and on a later exchange of an operation."""
    for level in ("v1", "v2c"):
        for i in range(len(COMMUNITY_VARIANTS)):
            for op, k in (("get", 0), ("set", 0), ("walk", 1), ("getnext", 0)):
                run_case(R, level, op, "community", k, ("variant", i), None, True, None)
                R.mon["community_variants_refused"] += 1


def late_duplicate(R):
    """A byte-identical copy of the PREVIOUS response (a late UDP duplicate) arrives as the
    answer to the NEXT request of the same client, which carries another request id because
    the clock has moved on: it must not be returned, on any version or level - also when
    the two requests ask for the same thing."""
    for level in rig.LEVEL_CYCLE_ALL:
        for op in ("get", "multiget", "getnext", "set", "bulkget"):
            if level == "v1" and op == "bulkget":
                continue
            case = {"level": level, "op": op, "fault": "late-duplicate", "k": 1, "delta": None, "step_seed": None, "prime": True}
            agent_clock = env.Clock()
            env.CLOCK.freeze(1_700_000_000.0)
            try:
                w = World(level, DB, clock=agent_clock)
                w.prime()
                w.seam.budget = 60
                inner = w.agent.handle
                st = {"last": None, "replay": False, "applied": False}

                def responder(data, st=st, inner=inner):
                    if st["replay"] and st["last"] is not None:
                        st["applied"] = True
                        return st["last"]
                    resp = inner(data)
                    st["last"] = resp
                    return resp

                w.set_responder(responder)
                first = rig.outcome(lambda: call(w, op))
                env.CLOCK.freeze(1_700_000_003.0)
                st["replay"] = True
                n0 = len(w.seam.requests)
                second = rig.outcome(lambda: call(w, op))
            except rig.BudgetExceeded:
                R.mon["aborted_by_budget"] += 1
                continue
            finally:
                env.CLOCK.freeze(1_700_000_000.0)
            R.case(("c07-late-duplicate", level, op), st["applied"])
            if first[0] != "ok":
                R.violation(case, "the conformant echo of the first request was refused: %r" % (first[1],), None)
                return
            # the clock is frozen three seconds later for the second call, so its request id
            # (and message id) differs from the one the copied response carries
            if second[0] == "ok" and st["applied"]:
                R.violation(case, "a byte-identical copy of the previous response (request id of the earlier request) was returned as the result of the next request: %r" % (str(second[1])[:120],), None)
                return
            if st["applied"]:
                R.mon["late_duplicates_refused"] += 1


def temporary_credentials(R):
    """One community client, a long series of `with reconfigure(credentials=V2C(new))`
    blocks with short-lived credential objects (freed after each block, so a later one
    may well live at the same address): the echo of the CURRENT community is accepted,
    a response carrying the previous block's community is refused."""
    import gc

    from puresnmp import Client
    from puresnmp.credentials import V1, V2C

    for version, cls in ((0, V1), (1, V2C)):
        mode = {"answer": "echo"}
        seen = []

        def responder(data):
            m = ber.decode_message(data)
            seen.append(m["community"])
            comm = m["community"] if mode["answer"] == "echo" else mode["answer"]
            pdu = m["pdu"]
            resp = {"type": ber.PDU_RESPONSE, "request_id": pdu["request_id"], "error_status": 0, "error_index": 0, "varbinds": [(o, ("int", 7)) for o, _ in pdu["varbinds"]]}
            return ber.enc_community_message(m["version"], comm, resp)

        seam = rig.Seam(responder)
        client = Client("192.0.2.1", cls("base"), sender=seam)
        prev = b"base"
        for j in range(40):
            name = "c%d-%s" % (j, "x" * (j % 5))
            case = {"level": "v1" if version == 0 else "v2c", "op": "get", "fault": "temporary-credentials", "k": j, "delta": None, "step_seed": None, "prime": True}
            gc.collect()
            with client.reconfigure(credentials=cls(name)):
                mode["answer"] = "echo"
                r1 = rig.outcome(lambda: drive(client.get(OID((1, 3, 6, 1, 2, 1, 1, 1, 0)))))
                mode["answer"] = prev
                r2 = rig.outcome(lambda: drive(client.get(OID((1, 3, 6, 1, 2, 1, 1, 1, 0)))))
            R.case(("c07-tempcred", version, j), True)
            if r1[0] != "ok":
                R.violation(case, "block %d (community %r): the conformant echo was refused: %r" % (j, name, r1[1]), None)
                return
            if r2[0] == "ok":
                R.violation(case, "block %d (community %r): a response carrying the previous community %r was accepted" % (j, name, prev), None)
                return
            prev = name.encode()
            R.mon["temporary_credential_blocks"] += 1


def swapped_replies(R):
    """Two requests in flight on ONE client with different request ids; a multiplexing
    sender hands each the other's (perfectly valid) response: neither may return data."""
    import asyncio

    from puresnmp import Client

    a, b = (1, 3, 6, 1, 2, 1, 1, 1, 0), (1, 3, 6, 1, 2, 1, 1, 5, 0)
    db = dict(DB)
    db[a], db[b] = ("str", b"value-A"), ("str", b"value-B")
    for level in ("v1", "v2c", "v3-noauth", "v3-md5", "v3-sha1-priv"):
        for ops in (("get", "get"), ("get", "getnext"), ("set", "get")):
            env.CLOCK.freeze(1_700_000_000.0)
            w = World(level, db)
            w.prime()
            env.CLOCK.stepping(lambda: 1.0)  # every read advances: the two ids differ
            pending = []

            async def parking(endpoint, packet, timeout=None, retries=None, loop=None):
                fut = asyncio.get_running_loop().create_future()
                pending.append((bytes(packet), fut))
                return await fut

            client = Client("192.0.2.1", w.creds, sender=parking)
            client.mpm = w.client.mpm  # the primed message-processing state (discovery done)

            async def op(kind, oid):
                try:
                    if kind == "get":
                        return ("ok", rig.to_tuple(await client.get(OID(oid))))
                    if kind == "getnext":
                        vb = await client.getnext(OID(oid))
                        return ("ok", (rig.oid_t(vb.oid), rig.to_tuple(vb.value)))
                    return ("ok", rig.to_tuple(await client.set(OID(oid), rig.from_tuple(("str", b"written")))))
                except Exception as exc:  # noqa: BLE001
                    return ("exc", exc)

            async def main():
                t1 = asyncio.ensure_future(op(ops[0], a))
                t2 = asyncio.ensure_future(op(ops[1], b))
                for _ in range(10):
                    await asyncio.sleep(0)
                if len(pending) != 2:
                    for _, f in pending:
                        f.cancel()
                    return None
                (p1, f1), (p2, f2) = pending
                r1, r2 = w.agent.handle(p1), w.agent.handle(p2)
                ids = []
                for raw in (p1, p2):
                    m = ber.decode_message(raw)
                    ids.append((m.get("pdu") or (m.get("scoped") or {}).get("pdu") or {}).get("request_id"))
                f1.set_result(r2)  # swapped
                f2.set_result(r1)
                return ids, await t1, await t2

            out = rig._run(main())
            env.CLOCK.freeze(1_700_000_000.0)
            case = {"level": level, "op": "+".join(ops), "fault": "swapped-replies", "k": 0, "delta": None, "step_seed": None, "prime": True}
            R.case(("c07-swap", level, ops), out is not None)
            if out is None:
                R.mon["swap_setup_incomplete"] += 1
                continue
            ids, o1, o2 = out
            if ids[0] is not None and ids[0] == ids[1]:
                R.mon["swap_same_ids"] += 1
                continue
            for who, o in (("first", o1), ("second", o2)):
                if o[0] == "ok":
                    R.violation(case, "two requests in flight (ids %r): the %s one was answered with the OTHER request's response and returned %r" % (ids, who, o[1]), None)
                    break
            else:
                R.mon["swapped_replies_refused"] += 1


def replay(R, v):
    if v["case"].get("fault") == "swapped-replies":
        swapped_replies(R)
        return
    if v["case"].get("fault") == "temporary-credentials":
        temporary_credentials(R)
        return
    if v["case"].get("fault") == "late-duplicate":
        late_duplicate(R)
        return
    c = v["case"]
    run_case(R, c["level"], c["op"], c["fault"], c["k"], c["delta"], c["step_seed"], c["prime"], c.get("err"), c.get("base", 1_700_000_000.0), via=c.get("via") or False)
    budget.MONITOR.off()
