"""
C08 - a non-zero error-status always surfaces as the documented exception,
naming the binding selected by error-index, and never as data.

The reference agent answers normally; its pdu_hook (adversary plumbing)
replaces the response PDU by an error response, so that in SNMPv3 the error
travels inside an authentic (and for authPriv encrypted) message.
"""

from .. import rig  # noqa: F401
from ..rig import OID, World, drive, drive_agen, oid_t
from puresnmp.exc import ErrorResponse, NoSuchOID

PROP = "C08"
LEVEL = "exploration"
SHARDS = {"quick": 8, "thorough": 16}
TIME_CAP = {"quick": 50, "thorough": 600}
RULE = (
    "Full matrix: error-status in {1..18, 19, 255, -1, 2^31-1} x error-index 0..len+3 (plus "
    "-1, 2^31-1 and values beyond Integer32: 2^31, 2^32, 2^63-1, 2^63, 2^64, 10^30, -2^63-1) x "
    "binding lists of 0..5 (tooBig: empty list) x operations {get, multiget, getnext, "
    "multigetnext, set, multiset, bulkget, walk/multiwalk/bulkwalk/table/bulktable with the "
    "error on the first or on a later request, PyWrapper get/multiget/walk} x seven levels "
    "(quick: the whole matrix on v1/v2c, a stride of it on the v3 levels; thorough: all). "
    "Oracle: the call raises ErrorResponse whose class has IDENTIFIER == status (1..18) or "
    "the generic class with error_status == status; offending_oid == binding[index-1] when "
    "1<=index<=len, empty otherwise; no data is returned. Distinct by (operation, level, "
    "status, index, len, when)."
    " For the authenticated levels the error also arrives in the answer to the request RE-SEN"
    "T after a notInTimeWindow report (device rebooted since discovery)."
    " multiget with 130/300 bindings and error-index around 127/128, 256/257 and the end of t"
    "he list; every shard begins with a thread stress (eight threads build their first error "
    "exceptions, six run their first failing exchange, GIL yielded at a third of the library'"
    "s statements)."
    " One client receives 450 error responses in a row."
    ' The same error answered three times raises three distinct objects; copy / deepcopy / pi'
    'ckle of a raised error - where it succeeds - keeps class, raw status and offending OID.'
)
ASSUMPTIONS = [
    "an error response echoes the request's bindings (RFC 3416 4.2.x), tooBig may carry an empty list",
    "status 2 (noSuchName) at a non-first request of a walk may end the walk normally or raise NoSuchOID (v1 end-of-walk convention); data from that response is never accepted",
]
REQUIRED_MONITORS = ("documented_exception_raised", "offending_oid_checked", "index_beyond_list")

STATUSES = list(range(1, 19)) + [19, 255, -1, 2**31 - 1]
CLASSES = {cls.IDENTIFIER: cls for cls in ErrorResponse.__subclasses__()}

DB = {(1, 3, 6, 1, 2, 1, 5, 1, i): ("int", i) for i in range(1, 7)}
DB[(1, 3, 6, 1, 2, 1, 6, 1, 1)] = ("str", b"after")
KEYS = sorted(DB)
# 300 more objects (outside every walked subtree) for requests with hundreds of bindings
BIGKEYS = [(1, 3, 6, 1, 2, 1, 8, 1, i) for i in range(1, 301)]
DB.update({k: ("int", k[-1]) for k in BIGKEYS})
ROOT = (1, 3, 6, 1, 2, 1, 5)
ENTRY = (1, 3, 6, 1, 2, 1, 5, 1)

SINGLE_OPS = ("get", "multiget", "getnext", "multigetnext", "set", "multiset", "bulkget", "pyget", "pymultiget")
WALK_OPS = ("walk", "multiwalk", "bulkwalk", "table", "bulktable", "pywalk", "walk-warn", "multiwalk-warn", "pywalk-warn")


def make_hook(status, index, nvb, when):
    """Error on request number `when` (0-based); nvb = bindings in the error response
    (None: echo the request's bindings)."""
    state = {"n": 0, "applied": None}

    def hook(req, resp):
        k = state["n"]
        state["n"] += 1
        if k != when:
            return resp
        vbs = list(req["varbinds"])
        if nvb is not None:
            while len(vbs) < nvb:
                vbs.append(((1, 3, 6, 1, 2, 1, 5, 9, len(vbs)), ("null", None)))
            vbs = vbs[:nvb]
        vbs = [(o, ("null", None)) for o, _ in vbs]
        state["applied"] = [o for o, _ in vbs]
        return {
            "type": 0xA2,
            "request_id": resp["request_id"],
            "error_status": status,
            "error_index": index,
            "varbinds": vbs,
        }

    hook.state = state
    return hook


def call(w, op, nreq):
    c, p = w.client, w.py
    oids = KEYS[:nreq] if nreq else KEYS[:1]
    if op == "get":
        return drive(c.get(OID(oids[0])))
    if op == "pyget":
        return drive(p.get(rig.oid_s(oids[0])))
    if op == "multiget300":
        return drive(c.multiget([OID(o) for o in BIGKEYS[:nreq]]))
    if op == "multiget":
        return drive(c.multiget([OID(o) for o in oids]))
    if op == "pymultiget":
        return drive(p.multiget([rig.oid_s(o) for o in oids]))
    if op == "getnext":
        return drive(c.getnext(OID(oids[0])))
    if op == "multigetnext":
        return drive(c.multigetnext([OID(o) for o in oids]))
    if op == "set":
        return drive(c.set(OID(oids[0]), rig.from_tuple(("int", 1))))
    if op == "multiset":
        return drive(c.multiset({OID(o): rig.from_tuple(("int", 1)) for o in oids}))
    if op == "bulkget":
        return drive(c.bulkget([OID(oids[0])], [OID(o) for o in oids[1:]] or [OID(oids[0])], max_list_size=2))
    if op == "walk-warn":
        return drive_agen(c.walk(OID(ROOT), errors=rig.lenient()), limit=100)
    if op == "multiwalk-warn":
        return drive_agen(c.multiwalk([OID(ROOT), OID((1, 3, 6, 1, 2, 1, 6))], errors=rig.lenient()), limit=100)
    if op == "pywalk-warn":
        return drive_agen(p.walk(rig.oid_s(ROOT), errors=rig.lenient()), limit=100)
    if op == "walk":
        return drive_agen(c.walk(OID(ROOT)), limit=100)
    if op == "pywalk":
        return drive_agen(p.walk(rig.oid_s(ROOT)), limit=100)
    if op == "multiwalk":
        return drive_agen(c.multiwalk([OID(ROOT), OID((1, 3, 6, 1, 2, 1, 6))]), limit=100)
    if op == "bulkwalk":
        return drive_agen(c.bulkwalk([OID(ROOT)], bulk_size=2), limit=100)
    if op == "table":
        return drive(c.table(OID(ENTRY)))
    if op == "bulktable":
        return drive(c.bulktable(OID(ROOT), bulk_size=2))
    raise ValueError(op)


def run_case(R, level, op, status, index, nvb, when, nreq=1, reboot=False):
    if level == "v1" and op in ("bulkget", "bulkwalk", "bulktable"):
        return
    w = World(level, DB)
    w.prime()
    w.seam.budget = 40
    if reboot:
        # the device rebooted since discovery: the first attempt is answered by an
        # authentic notInTimeWindow report, the error travels in the answer to the
        # request the client re-sends after re-synchronising
        w.agent.reboot()
        R.mon["errors_after_resync"] += 1
    hook = make_hook(status, index, nvb, when)
    w.agent.pdu_hook = hook
    case = {"level": level, "op": op, "status": status, "index": index, "nvb": nvb, "when": when, "nreq": nreq, "reboot": reboot}
    try:
        res = rig.outcome(lambda: call(w, op, nreq))
    except rig.BudgetExceeded:
        R.violation(case, "request budget exceeded", None)
        return
    applied = hook.state["applied"]
    fp = ("c08", op, level, status, index, nvb, when, nreq, reboot)
    R.case(fp, applied is not None, sample=case if R.evaluations % 1501 == 0 else None)
    if applied is None:
        R.mon["error_not_reached"] += 1
        return
    R.mon["error_responses_sent"] += 1
    nb = len(applied)
    if res[0] == "ok":
        if status == 2 and when > 0 and op in WALK_OPS:
            # v1 end-of-walk convention: ends normally with what came before
            before = set(KEYS)
            got = res[1]
            R.mon["status2_ended_walk"] += 1
            return
        R.violation(case, "error-status %d was answered, yet the call returned %r" % (status, str(res[1])[:200]), None)
        return
    exc = res[1]
    if not isinstance(exc, ErrorResponse):
        mech = "error-index-out-of-range" if isinstance(exc, IndexError) and not (1 <= index <= nb) and index != 0 else None
        R.violation(case, "expected ErrorResponse for status %d index %d (%d bindings), got %r" % (status, index, nb, exc), mech)
        return
    if status in CLASSES:
        if type(exc) is not CLASSES[status]:
            R.violation(case, "status %d raised %s, documented class is %s" % (status, type(exc).__name__, CLASSES[status].__name__), None)
            return
    else:
        if type(exc) is not ErrorResponse or exc.error_status != status:
            R.violation(case, "undefined status %d raised %s with error_status=%r" % (status, type(exc).__name__, getattr(exc, "error_status", None)), None)
            return
    if getattr(exc, "error_status", None) != status:
        R.violation(case, "exception carries error_status=%r, agent sent %d" % (getattr(exc, "error_status", None), status), None)
        return
    R.mon["documented_exception_raised"] += 1
    off = oid_t(exc.offending_oid) if exc.offending_oid is not None else ()
    if 1 <= index <= nb:
        if off != tuple(applied[index - 1]):
            R.violation(case, "offending_oid %r, error-index %d selects %r" % (off, index, applied[index - 1]), None)
            return
        R.mon["offending_oid_checked"] += 1
    else:
        if off != ():
            R.violation(case, "error-index %d selects no binding (list of %d), yet offending_oid=%r" % (index, nb, off), None)
            return
        if index > nb:
            R.mon["index_beyond_list"] += 1
        else:
            R.mon["index_zero_or_negative"] += 1
    # the same client, next request, no error any more: the agent's data, not the error again
    w.agent.pdu_hook = None
    w.seam.reset(budget=6)
    nxt = rig.outcome(lambda: drive(w.client.get(OID(KEYS[0]))))
    if nxt[0] != "ok" or rig.to_tuple(nxt[1]) != DB[KEYS[0]]:
        R.violation(case, "after the error response the next request on the same client gave %r" % (nxt[1],), None)
        return
    R.mon["next_request_after_error_ok"] += 1


def thread_stress(R):
    """The very first error responses this process ever handles arrive in six threads at
    once (each thread its own event loop, client and agent), with thread switches forced
    between the library's statements: every thread still gets the documented class."""
    import asyncio

    from .. import threads

    statuses = (18, 1, 17, 5, 13, 2)
    # first the factory on its own (the tightest window), then whole exchanges
    direct = [[(lambda st=st: type(ErrorResponse.construct(st, OID(KEYS[0]))).__name__, CLASSES[st].__name__)] * 4 for st in (18, 17, 16, 15, 1, 2, 9, 12)]
    bad0, stats0 = threads.run(direct, rounds=1)
    R.mon["thread_stress_calls"] += stats0["calls"]
    for ti, ji, got, want in bad0[:3]:
        R.violation({"level": "v2c", "op": "threads", "status": 0, "index": 1, "nvb": None, "when": 0, "nreq": 1}, "eight threads build their first error exceptions at once: got %r, documented is %r" % (got, want), None)
    jobs = []
    for ti, status in enumerate(statuses):
        w = World("v2c", DB)
        w.agent.pdu_hook = make_hook(status, 1, None, -1)  # never by count ...
        hook_status = status

        def always(req, resp, status=hook_status):
            return {"type": 0xA2, "request_id": resp["request_id"], "error_status": status, "error_index": 1, "varbinds": [(o, ("null", None)) for o, _ in req["varbinds"]]}

        w.agent.pdu_hook = always

        def job(w=w):
            try:
                asyncio.run(w.client.get(OID(KEYS[0])))
                return ("returned",)
            except ErrorResponse as exc:
                return (type(exc).__name__, exc.error_status)

        jobs.append([(job, (CLASSES[status].__name__, status))] * 3)
    bad, stats = threads.run(jobs, rounds=1)
    R.notes["thread_stress"] = stats
    R.mon["thread_stress_calls"] += stats["calls"]
    R.evaluations += stats["calls"]
    R.case(("c08-threads",), True)
    if stats["hung_threads"]:
        R.inconclusive("thread stress: %d threads did not finish" % stats["hung_threads"])
        return
    for ti, ji, got, want in bad[:3]:
        R.violation({"level": "v2c", "op": "threads", "status": statuses[ti], "index": 1, "nvb": None, "when": 0, "nreq": 1}, "six threads handle their first error responses at once: status %d surfaced as %r, documented is %r" % (statuses[ti], got, want), None)
    if not bad:
        R.mon["thread_stress_ok"] += 1


def long_lived(R):
    """ONE client receives hundreds of error responses over its life (a poller and a
    device that keeps refusing): number 450 surfaces exactly like number 1."""
    for level in ("v2c", "v3-md5"):
        w = World(level, DB)
        w.prime()
        st = {"status": 1}

        def always(req, resp):
            return {"type": 0xA2, "request_id": resp["request_id"], "error_status": st["status"], "error_index": 1, "varbinds": [(o, ("null", None)) for o, _ in req["varbinds"]]}

        w.agent.pdu_hook = always
        for j in range(450):
            st["status"] = STATUSES[j % 18]
            w.seam.reset(budget=6)
            w.agent.requests.clear()
            res = rig.outcome(lambda: drive(w.client.get(OID(KEYS[0]))) if j % 3 else drive(w.client.multiget([OID(KEYS[0]), OID(KEYS[1])])))
            R.evaluations += 1
            ok = res[0] == "exc" and type(res[1]) is CLASSES[st["status"]] and oid_t(res[1].offending_oid) == KEYS[0]
            if not ok:
                R.violation({"level": level, "op": "long-lived", "status": st["status"], "index": 1, "nvb": None, "when": j, "nreq": 1}, "error response number %d on one client (status %d) surfaced as %r" % (j + 1, st["status"], res[1]), None)
                break
        else:
            R.mon["long_lived_clients_ok"] += 1


def error_objects(R):
    """The exception a call raises is an ordinary object the caller keeps, logs, copies or
    sends to another process: the same error answered twice raises two objects (each with
    its own traceback), and a copy, deep copy or unpickled copy - where the object allows
    one at all - still is the documented class carrying the raw status and the offending
    OID."""
    import copy
    import pickle

    ways = (("copy", copy.copy), ("deepcopy", copy.deepcopy), ("pickle", lambda x: pickle.loads(pickle.dumps(x))))
    for level in ("v2c", "v1", "v3-sha1-priv"):
        w = World(level, DB)
        w.prime()
        st = {"status": 1}

        def always(req, resp):
            return {"type": 0xA2, "request_id": resp["request_id"], "error_status": st["status"], "error_index": 1, "varbinds": [(o, ("null", None)) for o, _ in req["varbinds"]]}

        w.agent.pdu_hook = always
        for status in STATUSES:
            st["status"] = status
            case = {"level": level, "op": "error-objects", "status": status, "index": 1, "nvb": None, "when": 0, "nreq": 1}
            caught = []
            for _ in range(3):
                w.seam.reset(budget=6)
                w.agent.requests.clear()
                res = rig.outcome(lambda: drive(w.client.get(OID(KEYS[0]))))
                R.evaluations += 1
                if res[0] != "exc" or type(res[1]) is not CLASSES.get(status, ErrorResponse) or getattr(res[1], "error_status", None) != status:
                    R.violation(case, "status %d surfaced as %r" % (status, res[1]), None)
                    return
                caught.append(res[1])
            if len({id(e) for e in caught}) != len(caught):
                R.violation(case, "the same error answered three times raised the very same exception object (tracebacks %r frames long)" % ([len(list(__import__("traceback").walk_tb(e.__traceback__))) for e in caught],), None)
                return
            R.mon["repeated_errors_raise_objects_of_their_own"] += 1
            orig = caught[0]
            want = (type(orig), orig.error_status, oid_t(orig.offending_oid))
            for name, fn in ways:
                try:
                    dup = fn(orig)
                except Exception:  # noqa: BLE001 - refusing to be copied is not a wrong error
                    R.mon["error_copies_refused"] += 1
                    continue
                try:
                    got = (type(dup), dup.error_status, oid_t(dup.offending_oid))
                except Exception as exc:  # noqa: BLE001
                    got = ("unreadable", repr(exc))
                if got != want:
                    R.violation(case, "%s of the raised %s (status %d): %r, the original %r" % (name, type(orig).__name__, status, got, want), None)
                    return
                R.mon["error_copies_alike"] += 1


def matrix():
    """Yield (op, status, index, nvb, when, nreq)."""
    for op in SINGLE_OPS:
        multi = op in ("multiget", "multigetnext", "multiset", "pymultiget", "bulkget")
        nreqs = (1, 3, 5) if multi else (1,)
        for nreq in nreqs:
            for status in STATUSES:
                echo_len = nreq if op != "bulkget" else max(nreq, 2) if nreq > 1 else 2
                for index in range(0, echo_len + 4):
                    yield (op, status, index, None, 0, nreq)
                # tooBig-style: empty list; and other lengths
                for nvb in (0, 2):
                    for index in (0, 1, nvb + 1):
                        yield (op, status, index, nvb, 0, nreq)
            yield (op, 5, -1, None, 0, nreq)
            yield (op, 5, 2**31 - 1, None, 0, nreq)
            # beyond Integer32 (BER carries any INTEGER): machine-word boundaries and more
            for status, nvb in ((5, None), (1, 0), (19, None)):
                for index in (2**31, 2**32 - 1, 2**32, 2**63 - 1, 2**63, 2**64, 10**30, -(2**31) - 1, -(2**63), -(2**63) - 1):
                    yield (op, status, index, nvb, 0, nreq)
    for op in WALK_OPS:
        for when in (0, 2):
            for status in STATUSES:
                for index in (0, 1, 2, 3):
                    yield (op, status, index, None, when, 1)
                yield (op, status, 1, 0, when, 1)


def run(R):
    full = R.tier == "thorough"
    thread_stress(R)  # in every shard, before this process has seen any error response
    if R.shard == 1 % R.nshards:
        long_lived(R)
    if R.shard == 2 % R.nshards:
        error_objects(R)
    k = 0
    # the small deterministic blocks first: a time cap must not starve them
    # hundreds of bindings: error-index values around 127/128 and 256/257 that DO name a
    # binding
    for level in ("v2c", "v1", "v3-md5-priv"):
        for nreq in (130, 300):
            for index in (1, 127, 128, 129, 130, 255, 256, 257, 258, 299, 300, 301):
                if index > nreq + 1:
                    continue
                k += 1
                if not R.mine(k):
                    continue
                run_case(R, level, "multiget300", (5, 17, 2)[index % 3], index, None, 0, nreq)
                R.mon["errors_in_requests_with_hundreds_of_bindings"] += 1
    for level in rig.AUTH_LEVELS:
        for op in SINGLE_OPS + ("walk", "bulkwalk"):
            for status, index in ((1, 0), (2, 1), (5, 1), (13, 2), (18, 1), (19, 1), (-1, 0)):
                k += 1
                if not R.mine(k):
                    continue
                run_case(R, level, op, status, index, None, 0, 1, reboot=True)
    complete = True
    cases = list(matrix())
    R.notes["matrix_size_per_level"] = len(cases)
    for level in rig.LEVELS:
        heavy = level.startswith("v3")
        for j, (op, status, index, nvb, when, nreq) in enumerate(cases):
            if heavy and not full:
                # a stride through the matrix that still visits every status,
                # every op and out-of-range indexes on each v3 level
                if (j + rig.LEVELS.index(level)) % 9:
                    continue
            k += 1
            if not R.mine(k):
                continue
            if not R.time_left():
                complete = False
                break
            run_case(R, level, op, status, index, nvb, when, nreq)
    R.exhaustive = full and complete


def replay(R, v):
    c = v["case"]
    if c.get("op") == "threads":
        thread_stress(R)
        return
    if c.get("op") == "long-lived":
        long_lived(R)
        return
    if c.get("op") == "error-objects":
        error_objects(R)
        return
    run_case(R, c["level"], c["op"], c["status"], c["index"], c["nvb"], c["when"], c.get("nreq", 1), reboot=c.get("reboot", False))
