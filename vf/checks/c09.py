"""
C09 - USM: whatever an on-path attacker does to a response, the caller gets
an exception or exactly the result the authentic response carried; the only
unauthenticated content ever acted upon is a Report, and it can only surface
as an error.

Per trial the client performs one operation whose response has been
tampered with by a man in the middle; the authentic result was recorded
first on the same world.  The attacker never uses the victim's keys: it
flips bits, rewrites fields, re-signs with keys it owns, replays another
engine's authentic message.
"""

from .. import rig  # noqa: F401
from .. import agent as agent_mod
from .. import ber, budget, env, privxf
from ..rig import OID, World, drive, drive_agen

PROP = "C09"
CHILD_ENV = {"VF_VIRTUAL_MONOTONIC": "1"}  # a client can grow old without anybody waiting
LEVEL = "fault_enumeration"
SHARDS = {"quick": 8, "thorough": 16}
TIME_CAP = {"quick": 55, "thorough": 1500}
RULE = (
    "Corpus: operations {get, multiget, getnext, bulkget, set} x response contents x {MD5, "
    "SHA-1} x {authNoPriv, authPriv} (quick: 8 authentic responses, thorough: 60). Fault "
    "enumeration per authentic response: EVERY single-bit flip at every position; every "
    "single-bit flip combined with the auth flag cleared (and, for privacy users, auth+priv "
    "cleared); structural forgeries: flags 0/1/2/3 mismatching the credentials with altered "
    "content, digest kept/zeroed/empty/short/recomputed under a foreign password or a key "
    "localised to another engine, foreign valid user re-signed, authentic replay from another "
    "engine that knows the same user, plaintext scoped PDU under privacy credentials, Report "
    "PDUs (unauthenticated) carrying data bindings and the expected request-id, usmStats "
    "Reports; multi-step attacks (forged notInTimeWindow / unknownEngineID report or a foreign "
    "engine's message, then a spoofed discovery steering the client to another engine that "
    "knows the user, then relaying). Oracle: outcome is an exception, or a result equal in type and value to the "
    "authentic one. All trials run under the logical step budget. Distinct by (response, "
    "fault kind, position)."
    " Multi-step attacks are also triggered by AUTHENTIC notInTimeWindow reports of the real "
    "engine carrying boots or time = 2^31-1; unauthenticated messages of type Response/Get/Tr"
    "ap with an error-status (bindings echoed or absent, flags 0/4/1 with zero or kept digest"
    ") are part of the corpus."
    " Passive attacks on clients that are 25 hours / 40 days old (virtual time): discovery pr"
    "obes answered as engine B, everything else left alone."
    ' Unauthenticated Reports whose binding value is a nested Response/Report PDU with an err'
    'or-status (every usmStats OID and a foreign one). Lenient walk and multiwalk are among t'
    'he tampered walks.'
)
ASSUMPTIONS = [
    "the attacker knows the wire format and everything on the wire, but none of the victim's keys",
    "a trial aborted by the step budget returned nothing to the caller (mechanism belongs to C20)",
    "result equality is by independent (kind, value) tuples",
]
REQUIRED_MONITORS = ("flip_trials", "flip_clearauth_trials", "forgery_trials", "rejected_with_exception", "authentic_replay_accepted")

DB = {
    (1, 3, 6, 1, 2, 1, 1, 0, 9): ("str", b"zeros:" + b"\x00" * 16 + b":end"),
    (1, 3, 6, 1, 2, 1, 1, 1, 0): ("str", b"authentic-sysDescr"),
    (1, 3, 6, 1, 2, 1, 1, 3, 0): ("tt", 123456),
    (1, 3, 6, 1, 2, 1, 1, 5, 0): ("str", b"host"),
    (1, 3, 6, 1, 2, 1, 2, 1, 0): ("int", 7),
    (1, 3, 6, 1, 2, 1, 4, 20, 1, 1): ("ip", b"\x0a\x00\x00\x01"),
    (1, 3, 6, 1, 2, 1, 31, 1, 1, 1, 6, 1): ("c64", 2**40 + 5),
    # the device's own usmStats counters are ordinary objects a caller may read: a
    # response that carries them is data like any other and needs the same protection
    (1, 3, 6, 1, 6, 3, 15, 1, 1, 3, 0): ("c32", 1742),
    (1, 3, 6, 1, 6, 3, 15, 1, 1, 5, 0): ("c32", 58),
}
KEYS = sorted(DB)
OPS = ("get", "multiget", "getnext", "bulkget", "set")
FORGED = ("int", 666)
OTHER_USER = agent_mod.User(b"mallory", ("md5", b"mallory-auth-pw"), None)


def call(w, op, variant=0):
    c = w.client
    if op == "get":
        return drive(c.get(OID(KEYS[variant % len(KEYS)])))
    if op == "multiget":
        return drive(c.multiget([OID(k) for k in KEYS[variant % 3 : variant % 3 + 3]]))
    if op == "getnext":
        return drive(c.getnext(OID(KEYS[variant % (len(KEYS) - 1)])))
    if op == "bulkget":
        return drive(c.bulkget([OID(KEYS[0])], [OID((1, 3, 6, 1, 2, 1, 1 + variant % 2))], max_list_size=2))
    if op == "set":
        return drive(c.set(OID(KEYS[2]), rig.from_tuple(("str", b"new-name-%d" % variant))))
    if op == "walk":
        return drive_agen(c.walk(OID((1, 3, 6, 1, 2, 1, 1))), limit=40)
    if op == "bulkwalk":
        return drive_agen(c.bulkwalk([OID((1, 3, 6, 1, 2, 1, 1))], bulk_size=2), limit=40)
    if op == "walk-warn":
        # lenient walks forgive a device that does not advance, nothing else
        return drive_agen(c.walk(OID((1, 3, 6, 1, 2, 1, 1)), errors=rig.lenient()), limit=40)
    if op == "multiwalk-warn":
        return drive_agen(c.multiwalk([OID((1, 3, 6, 1, 2, 1, 1)), OID((1, 3, 6, 1, 2, 1, 2))], errors=rig.lenient()), limit=40)
    raise ValueError(op)


def _o(k):
    from x690.types import ObjectIdentifier

    if isinstance(k, ObjectIdentifier):
        try:
            return rig.oid_t(k)
        except Exception:  # noqa: BLE001
            return ("?oid", repr(k))
    return ("?" + type(k).__name__, repr(k))


def norm(op, res):
    try:
        return _norm(op, res)
    except Exception as exc:  # noqa: BLE001 - a result that cannot even be normalised is "different"
        return ("?unnormalisable", repr(res)[:200], repr(exc))


def _norm(op, res):
    if op in ("get", "set"):
        return rig.to_tuple(res)
    if op == "multiget":
        return [rig.to_tuple(v) for v in res]
    if op == "getnext":
        return (_o(res.oid), rig.to_tuple(res.value))
    if op == "bulkget":
        return ([(_o(k), rig.to_tuple(v)) for k, v in res.scalars.items()], [(_o(k), rig.to_tuple(v)) for k, v in res.listing.items()])
    if op in ("walk", "bulkwalk", "walk-warn", "multiwalk-warn"):
        return [(_o(vb.oid), rig.to_tuple(vb.value)) for vb in res]
    raise ValueError(op)


class Target:
    """One authentic exchange that the attacker tampers with."""

    def __init__(self, level, op, variant, k=0):
        """k: which exchange of the operation the attacker tampers with (walks: 1 = the second)."""
        self.level, self.op, self.variant, self.k = level, op, variant, k
        self.w = World(level, DB)
        self.w.prime()
        self.w.seam.budget = None
        self.authentic = norm(op, call(self.w, op, variant))
        self.resp = self.w.seam.responses[k]
        self.req = self.w.seam.requests[k]
        self.msg = ber.decode_message(self.resp)
        rec = [r for r in self.w.agent.requests if "response_pdu" in r][k]
        self.resp_pdu = rec["response_pdu"]
        self.req_pdu = rec["pdu"]
        self.ctx_name = rec["scoped"]["ctx_name"]
        self.user = self.w.agent.users[rig.USER.encode()]
        self.engine = self.w.agent.engine_id
        # a second engine that knows the same user (same passwords) ...
        self.engine_b = bytes.fromhex("80001f8804") + b"other-engine"
        # ... and ANOTHER client of this process that really talks to it: whatever the
        # process remembers about engine B must not make the victim client trust it
        self.agent_b = agent_mod.Agent({k: FORGED for k in DB}, engine_id=self.engine_b, users=[self.user], clock=self.w.agent.clock)
        from puresnmp import Client as _Client

        self.client_b = _Client("192.0.2.77", self.w.creds, sender=rig.Seam(self.agent_b.handle))
        try:
            drive(self.client_b.get(OID(KEYS[0])))
        except Exception:  # noqa: BLE001
            pass

    def try_response(self, data):
        """Deliver ``data`` as the answer to a fresh run of the operation."""
        state = {"n": 0}
        agent = self.w.agent

        def responder(req):
            i = state["n"]
            state["n"] += 1
            # single-exchange operations: the tampered datagram answers every attempt;
            # walks: exactly exchange k is tampered with, the others are authentic
            if self.k == 0 or i == self.k:
                return data
            return agent.handle(req)

        self.w.set_responder(responder)
        self.w.seam.reset(budget=40)
        try:
            try:
                return budget.run_budgeted(lambda: call(self.w, self.op, self.variant), 600000, light=True)
            except rig.BudgetExceeded:
                return "exc", "request budget exceeded", 0
        finally:
            self.w.set_responder(self.w.agent.handle)
            self.w.seam.reset()

    def try_attack(self, responder):
        """A stateful man in the middle: responder(request bytes) -> bytes | None."""
        self.w.set_responder(responder)
        self.w.seam.reset(budget=12)
        try:
            try:
                return budget.run_budgeted(lambda: call(self.w, self.op, self.variant), 600000, light=True)
            except rig.BudgetExceeded:
                return "exc", "request budget exceeded", 0
        finally:
            self.w.set_responder(self.w.agent.handle)
            self.w.seam.reset()

    # --- forgery helpers (never use the victim's keys) ------------------------

    def altered_pdu(self, ptype=ber.PDU_RESPONSE):
        vbs = [(o, FORGED) for o, _ in self.resp_pdu["varbinds"]] or [(KEYS[0], FORGED)]
        return {"type": ptype, "request_id": self.resp_pdu["request_id"], "error_status": 0, "error_index": 0, "varbinds": vbs}

    def build(self, flags, pdu, user=None, digest=b"", engine=None, priv=b"", encrypted=None, usm_over=None):
        engine = self.engine if engine is None else engine
        usm = dict(self.msg["usm"])
        usm = {k: v for k, v in usm.items() if not k.startswith("_")}
        usm.update({"engine_id": engine, "user": rig.USER.encode() if user is None else user, "auth": digest, "priv": priv})
        if usm_over:
            usm.update(usm_over)
        out = {"msg_id": self.msg["msg_id"], "max_size": 65507, "flags": flags, "sec_model": 3, "usm": usm}
        if encrypted is not None:
            out["encrypted"] = encrypted
        else:
            out["scoped"] = (engine, self.ctx_name, pdu)
        return ber.enc_v3_message(out)

    def sign(self, raw, hashname, key):
        back = ber.decode_message(raw)
        a0, a1 = back["auth_span"]
        zeroed = raw[:a0] + b"\x00" * (a1 - a0) + raw[a1:]
        return raw[:a0] + ber.hmac96(hashname, key, zeroed)[: a1 - a0] + raw[a1:]


def forgeries(t):
    """Yield (name, datagram)."""
    hashname = t.user.auth[0]
    alt = t.altered_pdu()
    orig_digest = t.msg["usm"]["auth"]
    # flags mismatching the credentials, altered content, no/any digest
    yield "flags0-plaintext-altered", t.build(0, alt)
    yield "flags0-plaintext-altered-digest-kept", t.build(0, alt, digest=orig_digest)
    yield "flags4-plaintext-altered", t.build(4, alt)
    yield "flags1-altered-digest-kept", t.build(1, alt, digest=orig_digest)
    yield "flags1-altered-zero-digest", t.build(1, alt, digest=b"\x00" * 12)
    yield "flags1-altered-empty-digest", t.build(1, alt, digest=b"")
    yield "flags1-altered-short-digest", t.build(1, alt, digest=orig_digest[:6])
    yield "flags1-altered-long-digest", t.build(1, alt, digest=orig_digest + b"\x00")
    raw = t.build(1, alt, digest=b"\x00" * 12)
    yield "flags1-altered-signed-foreign-password", t.sign(raw, hashname, ber.localized_key(hashname, b"not-the-password", t.engine))
    yield "flags1-altered-signed-other-hash", t.sign(raw, "sha1" if hashname == "md5" else "md5", ber.localized_key("sha1" if hashname == "md5" else "md5", b"not-the-password", t.engine))
    yield "flags1-altered-signed-unlocalised-zero-key", t.sign(raw, hashname, b"\x00" * 16)
    # foreign but valid user, re-signed with ITS key; and victim's name with mallory's key
    mkey = OTHER_USER.auth_key(t.engine)
    raw = t.build(1, alt, user=OTHER_USER.name, digest=b"\x00" * 12)
    yield "foreign-user-resigned", t.sign(raw, "md5", mkey)
    raw = t.build(1, alt, digest=b"\x00" * 12)
    yield "victim-name-foreign-key", t.sign(raw, "md5", mkey)
    yield "foreign-user-unauthenticated", t.build(0, alt, user=OTHER_USER.name)
    yield "empty-user-unauthenticated", t.build(0, alt, user=b"")
    # authentic replay from ANOTHER engine that knows the same user (attacker replays, does not sign)
    key_b = t.user.auth_key(t.engine_b)
    raw = t.build(1, alt, engine=t.engine_b, digest=b"\x00" * 12)
    yield "replay-from-foreign-engine", t.sign(raw, hashname, key_b)
    yield "foreign-engine-unauthenticated", t.build(0, alt, engine=t.engine_b)
    # privacy-related
    scoped_plain = ber.enc_scoped_pdu(t.engine, t.ctx_name, alt)
    yield "flags2-plaintext-as-octets", t.build(2, None, encrypted=scoped_plain)
    yield "flags3-plaintext-as-octets-digest-kept", t.build(3, None, encrypted=scoped_plain, digest=orig_digest, priv=t.msg["usm"]["priv"])
    yield "flags3-sequence-digest-kept", t.build(3, alt, digest=orig_digest, priv=t.msg["usm"]["priv"])
    yield "flags1-plaintext-under-priv-creds-digest-kept", t.build(1, alt, digest=orig_digest)
    if "encrypted" in t.msg:
        yield "flags2-original-ciphertext", t.build(2, None, encrypted=t.msg["encrypted"], priv=t.msg["usm"]["priv"])
        ct = bytearray(t.msg["encrypted"])
        ct[-1] ^= 0x01
        yield "flags2-ciphertext-last-bit", t.build(2, None, encrypted=bytes(ct), priv=t.msg["usm"]["priv"])
        yield "flags3-ciphertext-last-bit-digest-kept", t.build(3, None, encrypted=bytes(ct), priv=t.msg["usm"]["priv"], digest=orig_digest)
    # below the security level, and the PDU is neither a Response nor a Report
    for ptype in (ber.PDU_GET, ber.PDU_GETNEXT, ber.PDU_SET, ber.PDU_INFORM, ber.PDU_TRAP):
        yield "flags0-plaintext-altered-pdu-0x%02x" % ptype, t.build(0, t.altered_pdu(ptype))
        yield "flags0-plaintext-altered-pdu-0x%02x-empty-user" % ptype, t.build(0, t.altered_pdu(ptype), user=b"")
    # the authentic message contains a run of >= 12 zero octets: the attacker overwrites 12
    # of them with a copy of the message's own digest (a second place that looks like the
    # digest field to a byte search)
    if t.msg["flags"] & 1 and "encrypted" not in t.msg:
        run_at = t.resp.find(b"\x00" * 12, t.msg["auth_span"][1])
        if run_at > 0:
            d = bytearray(t.resp)
            d[run_at : run_at + 12] = orig_digest
            yield "digest-copied-into-a-zero-run", bytes(d)
    # Reports: unauthenticated, carrying data and the expected request-id
    rep = t.altered_pdu(ber.PDU_REPORT)
    yield "report-with-data", t.build(0, rep)
    yield "report-with-data-empty-user", t.build(0, rep, user=b"")
    rep2 = dict(rep)
    rep2["varbinds"] = [(o, v) for o, v in t.resp_pdu["varbinds"]]
    yield "report-with-authentic-looking-data", t.build(0, rep2)
    for stat, oid in ber.USM_STATS.items():
        r3 = dict(rep)
        r3["varbinds"] = [(oid, ("c32", 1))]
        yield "report-usmstats-" + stat, t.build(0, r3)
    r4 = dict(rep)
    r4["varbinds"] = []
    yield "report-empty", t.build(0, r4)
    # unauthenticated Reports carrying an ERROR-STATUS (noSuchName ends a walk, ...)
    for status in (2, 1, 5, 13):
        for vbs in ([], [(o, ("null", None)) for o, _ in t.req_pdu["varbinds"]]):
            r5 = dict(rep)
            r5["error_status"] = status
            r5["error_index"] = 1 if vbs else 0
            r5["varbinds"] = vbs
            yield "report-error-status-%d-%s" % (status, "echo" if vbs else "empty"), t.build(0, r5)
    # unauthenticated Reports whose binding VALUE is itself a PDU carrying an error-status and
    # the request-id in use (value objects are decoded lazily: anything that touches the
    # value - converting it, formatting it - may raise the nested PDU's error, and a
    # noSuchName escaping from there ends a walk quietly)
    for stat, oid in list(ber.USM_STATS.items()) + [("other", (1, 3, 6, 1, 6, 3, 11, 2, 1, 3, 0))]:
        for ptype in (ber.PDU_RESPONSE, ber.PDU_REPORT):
            for status in (2, 5):
                inner = t.altered_pdu(ptype)
                inner["error_status"] = status
                inner["error_index"] = 1
                r7 = dict(rep)
                r7["varbinds"] = [(oid, ("rawtlv", ber.enc_pdu(inner)))]
                yield "report-%s-value-nested-pdu-0x%02x-status-%d" % (stat, ptype, status), t.build(0, r7)
    # the same for every other PDU type (a plaintext RESPONSE with noSuchName would end a
    # walk quietly if its error-status were looked at before the security level)
    for ptype in (ber.PDU_RESPONSE, ber.PDU_GET, ber.PDU_TRAP):
        for status in (2, 1, 5, 18):
            for flags, digest in ((0, None), (4, None), (1, b"\x00" * 12), (1, orig_digest)):
                for vbs in ([], [(o, ("null", None)) for o, _ in t.req_pdu["varbinds"]]):
                    p6 = t.altered_pdu(ptype)
                    p6["error_status"] = status
                    p6["error_index"] = 1 if vbs else 0
                    p6["varbinds"] = vbs
                    kw = {"digest": digest} if digest is not None else {}
                    yield "pdu-0x%02x-error-status-%d-flags%d-%s%s" % (ptype, status, flags, "echo" if vbs else "empty", "-digest-kept" if digest == orig_digest else ""), t.build(flags, p6, **kw)
    # engine timing rewritten (unauthenticated fields are covered by the digest)
    yield "boots-time-rewritten-digest-kept", t.build(t.msg["flags"], None if "encrypted" in t.msg else alt, encrypted=t.msg.get("encrypted"), digest=orig_digest, priv=t.msg["usm"]["priv"], usm_over={"boots": 9, "time": 99})


def attacks(t):
    """
    Multi-step attacks: an unauthenticated trigger, then a spoofed discovery
    that steers the client to ANOTHER engine which knows the same user (the
    attacker only relays; it never uses the victim's keys).  Yields
    (name, responder).
    """
    db_b = {k: FORGED for k in DB}
    agent_b = agent_mod.Agent(db_b, engine_id=t.engine_b, users=[t.user], clock=t.w.agent.clock)

    def make(trigger):
        state = {"triggered": False}

        def responder(req):
            try:
                m = ber.decode_message(req)
            except ber.BerError:
                return None
            usm = m["usm"]
            if usm["engine_id"] == b"" and usm["user"] == b"":
                return agent_b.handle(req)  # spoofed discovery: "I am engine B"
            if usm["engine_id"] == t.engine_b:
                return agent_b.handle(req)  # relayed to the real engine B
            # the client still addresses engine A: pull the trigger
            state["triggered"] = True
            if trigger.startswith("authentic-niw"):
                # engine A itself (nothing forged): it has rebooted and its boots counter
                # is latched at the maximum / its engine time stands at the maximum, so
                # it answers with an AUTHENTIC notInTimeWindow report carrying 2^31-1
                return latched[trigger].handle(req)
            if trigger == "replay-b":
                raw = t.build(1, t.altered_pdu(), engine=t.engine_b, digest=b"\x00" * 12)
                return t.sign(raw, t.user.auth[0], t.user.auth_key(t.engine_b))
            rep = t.altered_pdu(ber.PDU_REPORT)
            rep["varbinds"] = [(ber.USM_STATS[trigger], ("c32", 7))]
            return t.build(0, rep)

        return responder

    latched = {
        "authentic-niw-boots-max": agent_mod.Agent(DB, engine_id=t.engine, users=[t.user], clock=t.w.agent.clock, boots=2**31 - 1),
        "authentic-niw-time-max": agent_mod.Agent(DB, engine_id=t.engine, users=[t.user], clock=t.w.agent.clock, boots=t.w.agent.boots + 1),
    }
    a2 = latched["authentic-niw-time-max"]
    a2.boot_epoch = (a2.clock.now if a2.clock is not None else 0.0) - (2**31 - 1)
    for trigger in ("not_in_window", "unknown_engine", "replay-b", "authentic-niw-boots-max", "authentic-niw-time-max"):
        yield "spoofed-rediscovery-after-" + trigger, make(trigger)

    # no trigger at all: the client has simply grown OLD (25 hours, 40 days since its
    # discovery); the attacker answers any discovery probe as engine B and relays to B,
    # everything addressed to engine A reaches the real engine A
    def passive(req):
        try:
            m = ber.decode_message(req)
        except ber.BerError:
            return None
        usm = m["usm"]
        if (usm["engine_id"] == b"" and usm["user"] == b"") or usm["engine_id"] == t.engine_b:
            return agent_b.handle(req)
        return t.w.agent.handle(req)

    for hours in (25, 24 * 40):
        yield "spoofed-rediscovery-of-a-client-aged-%dh" % hours, passive


def judge(R, t, fault, pos, data, kind, val, steps):
    case = {"level": t.level, "op": t.op, "variant": t.variant, "k": t.k, "fault": fault, "pos": pos, "datagram": "hex:" + data.hex()}
    if kind == "over":
        R.mon["aborted_by_budget"] += 1
        return
    if kind == "exc":
        R.mon["rejected_with_exception"] += 1
        R.mon["exc_" + type(val).__name__] += 1
        return
    got = norm(t.op, val)
    if got == t.authentic:
        R.mon["accepted_identical"] += 1
        return
    mech = None
    flags = engine = None
    report = False
    try:
        m = ber.decode_message(data)
        flags = m["flags"]
        engine = m["usm"]["engine_id"]
        pdu = m.get("scoped", {}).get("pdu")
        report = pdu is not None and pdu["type"] == ber.PDU_REPORT
    except ber.BerError:
        # bit flips keep all offsets: read the flags octet where it was
        if len(data) == len(t.resp):
            flags = data[t.msg["flags_off"]]
    if fault.startswith("spoofed-rediscovery"):
        mech = "unauthenticated-trigger-rediscovers"
    elif flags is not None and not flags & 1:
        mech = "report-as-data" if report else "auth-flag-downgrade"
    elif engine is not None and engine != t.engine:
        mech = "foreign-engine-accepted"
    R.violation(case, "tampered response (%s) ACCEPTED with a different result: %r, authentic %r" % (fault, str(got)[:160], str(t.authentic)[:160]), mech)


def flips(t, clear):
    """(pos, data) for every single-bit flip, optionally with flag bits cleared."""
    base = bytearray(t.resp)
    foff = t.msg["flags_off"]
    if clear:
        base[foff] &= ~clear & 0xFF
    for pos in range(len(base) * 8):
        d = bytearray(base)
        d[pos // 8] ^= 1 << (pos % 8)
        yield pos, bytes(d)


def targets(tier):
    """(level, op, variant, k, with_flips)"""
    levels = rig.AUTH_LEVELS
    out = []
    if tier == "quick":
        plan = [("get", 0), ("bulkget", 0)]
        for lv in levels:
            for op, var in plan:
                out.append((lv, op, var, 0, True))
    else:
        for lv in levels:
            for op in OPS:
                for var in (0, 1, 2):
                    out.append((lv, op, var, 0, True))
    # reads of the device's own usmStats counters (the last two objects of DB): the
    # response looks like the payload of an error indication but is ordinary data
    # (forgeries and attacks only)
    for lv in levels:
        for var in (len(KEYS) - 2, len(KEYS) - 1):
            out.append((lv, "get", var, 0, False))
    # walks: the attacker tampers with the second exchange (forgeries and attacks only)
    for lv in levels:
        for op in ("walk", "bulkwalk", "walk-warn", "multiwalk-warn"):
            out.append((lv, op, 0, 1, False))
    return out


def run(R):
    tl = targets(R.tier)
    R.notes["authentic_responses"] = len(tl)
    idx = 0
    complete = True
    # pass 1 - every target: the structured forgeries and the multi-step attacks (never cut
    # by the time cap); pass 2 - the bit flips, under the cap
    made = {}
    for ti, (level, op, var, k, with_flips) in enumerate(tl):
        t = made[ti] = Target(level, op, var, k)
        R.notes.setdefault("response_sizes", {})["%s/%s/%d" % (level, op, var)] = len(t.resp)
        # sanity: the untouched authentic response is accepted
        kind, val, _ = t.try_response(t.resp)
        if kind != "ok" or norm(op, val) != t.authentic:  # (walks: exchange k answered with its own authentic response)
            R.inconclusive("authentic response not accepted on replay (%s/%s): %r" % (level, op, val))
            return
        R.mon["authentic_replay_accepted"] += 1
        for name, data in forgeries(t):
            idx += 1
            if not R.mine(idx):
                continue
            kind, val, steps = t.try_response(data)
            R.case(("forgery", level, op, var, name), True, sample={"level": level, "op": op, "fault": name, "outcome": kind if kind != "exc" else repr(val)[:100], "datagram": data.hex()[:160]} if ti == 0 else None)
            R.mon["forgery_trials"] += 1
            R.mon["forgery_" + name] += 1
            judge(R, t, name, None, data, kind, val, steps)
        for name, responder in attacks(t):
            idx += 1
            if not R.mine(idx):
                continue
            if "-aged-" in name:
                # virtual time (time.time and time.monotonic alike) moves on for everybody
                env.CLOCK.advance(3600.0 * int(name.rsplit("-", 1)[1][:-1]))
                R.mon["attacks_on_aged_clients"] += 1
            kind, val, steps = t.try_attack(responder)
            R.case(("attack", level, op, var, name), True)
            R.mon["multistep_attack_trials"] += 1
            judge(R, t, name, None, b"", kind, val, steps)
    for ti, (level, op, var, k, with_flips) in enumerate(tl):
        if not with_flips:
            continue
        t = Target(level, op, var, k)  # a fresh client (the attacks above aged / disturbed the first one)
        priv = level.endswith("-priv")
        plans = [("flip", 0), ("flip+clear-auth", 1)]
        if priv:
            plans.append(("flip+clear-auth+priv", 3))
        for name, clear in plans:
            for pos, data in flips(t, clear):
                idx += 1
                if not R.mine(idx):
                    continue
                if not R.time_left():
                    complete = False
                    break
                kind, val, steps = t.try_response(data)
                R.evaluations += 1
                R.mon["flip_trials" if clear == 0 else "flip_clearauth_trials"] += 1
                if pos % 64 == 0:
                    R.fingerprints.add("%s/%s/%d/%s/%d" % (level, op, var, name, pos // 64))
                judge(R, t, name, pos, data, kind, val, steps)
            if not complete:
                break
        if not complete:
            break
    R.exhaustive = complete
    budget.MONITOR.off()


def replay(R, v):
    c = v["case"]
    t = Target(c["level"], c["op"], c["variant"], c.get("k", 0))
    data = bytes.fromhex(c["datagram"][4:])
    kind, val, steps = t.try_response(data)
    R.evaluations += 1
    judge(R, t, c["fault"], c["pos"], data, kind, val, steps)
    budget.MONITOR.off()
