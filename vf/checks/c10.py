"""
C10 - USM interop with an independent RFC 3412/3414 implementation: every
request verifies (flags, security parameters, digest over the message as
sent), and every authentic minimal-BER response at the same security level
is accepted and decoded.
"""

from .. import rig  # noqa: F401
from .. import ber, env
from ..rig import OID, World, drive, drive_agen

PROP = "C10"
LEVEL = "exploration"
SHARDS = {"quick": 4, "thorough": 16}
TIME_CAP = {"quick": 55, "thorough": 900}
RULE = (
    "Users {MD5, SHA-1} x {authNoPriv, authPriv} (+ noAuthNoPriv for the flag/parameter "
    "monitors) against the independent agent. (a) password sweep: authentication and privacy "
    "passwords of every length 1..300 in thorough, a spread incl. lengths that do not divide "
    "2^20 (3, 7, 13, 100, 129, 255, 257, 300) in quick; engine ids of 5..32 octets (every "
    "other case reuses one fixed engine id with new passwords); random "
    "boots/time. (b) length sweep: GET responses and SET requests padded by 0..300 octets so "
    "that total message, scoped-PDU and PDU length each take every value in 100..300 in both "
    "directions (coverage measured and reported). (c) operations get, multiget, getnext, "
    "bulkget, set, multiset, walk, bulkwalk. (d) every engine id length 5..32 on every user. Monitors: the agent's verdict per request (all "
    "usmStats counters 0 apart from the one discovery unknownEngineID; digest verified over "
    "the datagram exactly as sent), msgFlags == level | reportable for confirmed-class PDUs, "
    "engine id/boots/time == discovered values, user name; client outcome == database truth. "
    "Distinct by (level, sweep kind, parameter)."
    " (e) one client object first works as another user of the same engine (each other v3 lev"
    "el) and is switched to the user under test by configure()."
    " (f) agents announcing msgMaxSize 484/500/1472 answer with responses of 300..1500 payloa"
    "d octets."
    " Caller-given context engine ids that are not the agent's (block g); one credentials obj"
    'ect shared by the clients of three engines in turn (block h).'
)
ASSUMPTIONS = [
    "the reference agent (vf/agent.py, vf/ber.py) is the independent RFC 3414 implementation; its key localisation and HMAC are self-checked on RFC 3414 A.3 / RFC 2202 vectors at start",
    "privacy uses the rig's invertible transform on both sides (C11 owns the privacy plug-in contract)",
]
REQUIRED_MONITORS = ("requests_verified_by_agent", "responses_accepted_correct", "reportable_flag_checked", "password_lengths_swept", "length_sweep_exchanges", "engine_id_lengths_swept")

BASE = (1, 3, 6, 1, 2, 1, 1)
QUICK_PW = (1, 2, 3, 7, 8, 13, 16, 31, 64, 100, 129, 255, 257, 300)


def monitor_requests(R, w, case, level, discovered, user=rig.USER):
    """Check every non-discovery request the agent saw. Returns False on violation."""
    want_level = {"v3-noauth": 0}.get(level, 3 if level.endswith("-priv") else 1)
    for rec in w.agent.requests:
        if rec.get("discovery"):
            R.mon["discovery_seen"] += 1
            continue
        if "flags" not in rec:
            R.violation(case, "agent could not parse a request: %s" % rec.get("verdict"), None)
            return False
        if rec["verdict"] != "ok":
            R.violation(case, "independent RFC 3414 agent refused the request: %s (flags=%d usm=%r)" % (rec["verdict"], rec["flags"], {k: (v.hex() if isinstance(v, bytes) else v) for k, v in rec["usm"].items()}), None)
            return False
        R.mon["requests_verified_by_agent"] += 1
        flags = rec["flags"]
        if flags & 3 != want_level:
            R.violation(case, "msgFlags level bits %d, credentials are level %d" % (flags & 3, want_level), None)
            return False
        ptype = rec["pdu"]["type"]
        if ptype in (ber.PDU_GET, ber.PDU_GETNEXT, ber.PDU_GETBULK, ber.PDU_SET):
            R.mon["reportable_flag_checked"] += 1
            R.mon["reportable_checked_0x%02x" % ptype] += 1
            if not flags & 4:
                R.violation(case, "confirmed-class PDU 0x%02x sent without the reportable flag (msgFlags=%d)" % (ptype, flags), "reportable-missing")
                return False
        if flags & ~7:
            R.violation(case, "reserved msgFlags bits set: 0x%02x" % flags, None)
            return False
        usm = rec["usm"]
        if usm["engine_id"] != w.agent.engine_id:
            R.violation(case, "msgAuthoritativeEngineID %s != discovered %s" % (usm["engine_id"].hex(), w.agent.engine_id.hex()), None)
            return False
        # the agent's engine clock is frozen in this check; the client may add the
        # (real) seconds elapsed since discovery, which must stay inside the window
        if usm["boots"] != discovered[0] or not discovered[1] <= usm["time"] <= discovered[1] + 150:
            R.violation(case, "engine boots/time %r, discovered %r" % ((usm["boots"], usm["time"]), discovered), None)
            return False
        if usm["user"] != user.encode():
            R.violation(case, "msgUserName %r" % usm["user"], None)
            return False
    bad = {k: v for k, v in w.agent.counters.items() if k in ("wrong_digest", "unsupported_level", "not_in_window", "unknown_user", "decrypt_error", "asn_parse_error", "unknown_context_engine", "invalid_msg_flags") and v}
    if bad or w.agent.counters.get("unknown_engine", 0) > 1:
        R.violation(case, "agent usmStats counters after the run: %r" % dict(w.agent.counters), None)
        return False
    return True


def lengths_of(raw, plain=None):
    """CONTENT lengths (message, scoped PDU, PDU) of one datagram: the numbers
    that sit in the three BER length fields."""
    m = ber.decode_message(raw)
    if "scoped" in m:
        sp = m["scoped"]
        return m["content_len"], sp["content_len"], sp["pdu"]["content_len"]
    if plain is not None:
        sp = ber.dec_scoped_pdu(plain, 0, len(plain))
        return m["content_len"], sp["content_len"], sp["pdu"]["content_len"]
    return m["content_len"], None, None


AGENT_MAX = [None]  # msgMaxSize the agent announces (its own receive limit)
SHARED_CREDS = [None]  # ONE credentials object used by the clients of several engines
CTX_ENGINE = [b""]  # contextEngineID given by the caller (Client(engine_id=...)): NOT the security engine


def one_world(R, level, label, param, auth_pw=rig.AUTH_PW, priv_pw=rig.PRIV_PW, engine_id=None, boots=1, tshift=0, ops=("get",), pad=0, cover=None, user=rig.USER, extra=0, small_ids=False, switch_from=None):
    global BASE
    if small_ids:
        extra = 0
        env.CLOCK.freeze(100.0)
    try:
        return _one_world(R, level, label, param, auth_pw, priv_pw, engine_id, boots, tshift, ops, pad, cover, user, extra, small_ids, switch_from)
    finally:
        env.CLOCK.freeze(1_700_000_000.0)


def _one_world(R, level, label, param, auth_pw, priv_pw, engine_id, boots, tshift, ops, pad, cover, user, extra, small_ids, switch_from=None):
    global BASE
    BASE = (1, 3, 6, 1, 2, 1, 1) if label != "len" else (1, 3)
    db = {
        BASE + (1, 0): ("str", b"d" * pad),
        BASE + (2, 0): ("str", b"e" * extra),
        BASE + (3, 0): ("tt", 4242),
        BASE + (4, 0): ("str", b"contact"),
        BASE + (5, 0): ("str", b"name"),
        (1, 3, 6, 1, 2, 1, 2, 1, 0): ("int", 3),
    }
    akw = {"boots": boots}
    if AGENT_MAX[0]:
        akw["max_size"] = AGENT_MAX[0]
    if engine_id is not None:
        akw["engine_id"] = engine_id
    ckw = {}
    if CTX_ENGINE[0]:
        akw["any_context"] = True
        ckw["engine_id"] = CTX_ENGINE[0]
    agent_clock = env.Clock()
    agent_clock.now = 1_000_000.0
    extra_users = []
    if switch_from:
        extra_users.append(rig.agent_user_for(switch_from, user="previous", auth_pw=auth_pw, priv_pw=priv_pw))
    w = World(level, db, agent_kwargs=akw, cred_kwargs={"auth_pw": auth_pw, "priv_pw": priv_pw, "user": user}, clock=agent_clock, extra_users=extra_users, client_kwargs=ckw, creds=SHARED_CREDS[0])
    agent_clock.now += tshift  # engine time at discovery
    discovered = (boots, w.agent.engine_time())
    w.seam.budget = 80
    if switch_from:
        # ONE client object: it first works as another user of the same engine (other
        # authentication protocol / level, same passwords) and is then switched to the
        # user under test by configure()
        from puresnmp import Client as _Client, PyWrapper as _PyWrapper

        cl = _Client("192.0.2.1", rig.credentials_for(switch_from, user="previous", auth_pw=auth_pw, priv_pw=priv_pw), sender=w.seam)
        pre = rig.outcome(lambda: drive(cl.get(OID(BASE + (5, 0)))))
        if pre[0] != "ok":
            R.inconclusive("prelude as the previous user failed: %r" % (pre[1],))
            return
        cl.configure(credentials=w.creds)
        w.client, w.py = cl, _PyWrapper(cl)
        w.seam.reset(budget=80)
        w.agent.requests.clear()
        R.mon["clients_switched_from_another_user"] += 1
    c = w.client
    case = {"level": level, "label": label, "param": param, "auth_pw": "hex:" + bytes(auth_pw).hex(), "priv_pw": "hex:" + bytes(priv_pw).hex(), "engine_id": "hex:" + (engine_id or b"").hex(), "boots": boots, "tshift": tshift, "ops": list(ops), "pad": pad, "user": user, "extra": extra, "small_ids": small_ids, "switch_from": switch_from, "agent_max": AGENT_MAX[0], "ctx_engine": "hex:" + CTX_ENGINE[0].hex()}
    R.case(("c10", level, label, param, switch_from), True, sample=case if R.evaluations % 211 == 0 else None)
    for op in ops:
        try:
            if op == "get2":
                # two bindings of independently varying size: every content length is
                # reachable (one binding alone can never have a total of 130 or 259 octets)
                res = rig.outcome(lambda: drive(c.multiget([OID(BASE + (1, 0)), OID(BASE + (2, 0))])))
                want = [("str", b"d" * pad), ("str", b"e" * extra)]
                got = [rig.to_tuple(v) for v in res[1]] if res[0] == "ok" else None
            elif op == "set2":
                res = rig.outcome(lambda: drive(c.multiset({OID(BASE + (4, 0)): rig.from_tuple(("str", b"s" * pad)), OID(BASE + (5, 0)): rig.from_tuple(("str", b"t" * extra))})))
                want = {BASE + (4, 0): ("str", b"s" * pad), BASE + (5, 0): ("str", b"t" * extra)}
                got = {rig.oid_t(k): rig.to_tuple(v) for k, v in res[1].items()} if res[0] == "ok" else None
            elif op == "get":
                res = rig.outcome(lambda: drive(c.get(OID(BASE + (1, 0)))))
                want = ("str", b"d" * pad)
                got = rig.to_tuple(res[1]) if res[0] == "ok" else None
            elif op == "multiget":
                res = rig.outcome(lambda: drive(c.multiget([OID(BASE + (3, 0)), OID(BASE + (5, 0))])))
                want = [("tt", 4242), ("str", b"name")]
                got = [rig.to_tuple(v) for v in res[1]] if res[0] == "ok" else None
            elif op == "getnext":
                res = rig.outcome(lambda: drive(c.getnext(OID(BASE + (3, 0)))))
                want = (BASE + (4, 0), ("str", b"contact"))
                got = (rig.oid_t(res[1].oid), rig.to_tuple(res[1].value)) if res[0] == "ok" else None
            elif op == "bulkget":
                res = rig.outcome(lambda: drive(c.bulkget([OID(BASE + (3, 0))], [OID(BASE + (4,))], max_list_size=2)))
                want = ([(BASE + (4, 0), ("str", b"contact"))], [(BASE + (4, 0), ("str", b"contact")), (BASE + (5, 0), ("str", b"name"))])
                got = ([(rig.oid_t(k), rig.to_tuple(v)) for k, v in res[1].scalars.items()], [(rig.oid_t(k), rig.to_tuple(v)) for k, v in res[1].listing.items()]) if res[0] == "ok" else None
            elif op == "set":
                val = ("str", b"s" * pad)
                res = rig.outcome(lambda: drive(c.set(OID(BASE + (4, 0)), rig.from_tuple(val))))
                want = val
                got = rig.to_tuple(res[1]) if res[0] == "ok" else None
            elif op == "multiset":
                res = rig.outcome(lambda: drive(c.multiset({OID(BASE + (4, 0)): rig.from_tuple(("str", b"c2")), OID(BASE + (5, 0)): rig.from_tuple(("int", 9))})))
                want = {BASE + (4, 0): ("str", b"c2"), BASE + (5, 0): ("int", 9)}
                got = {rig.oid_t(k): rig.to_tuple(v) for k, v in res[1].items()} if res[0] == "ok" else None
            elif op == "walk":
                res = rig.outcome(lambda: drive_agen(c.walk(OID((1, 3, 6, 1, 2, 1, 2))), limit=20))
                want = [((1, 3, 6, 1, 2, 1, 2, 1, 0), ("int", 3))]
                got = [(rig.oid_t(vb.oid), rig.to_tuple(vb.value)) for vb in res[1]] if res[0] == "ok" else None
            elif op == "bulkwalk":
                res = rig.outcome(lambda: drive_agen(c.bulkwalk([OID((1, 3, 6, 1, 2, 1, 2))], bulk_size=3), limit=20))
                want = [((1, 3, 6, 1, 2, 1, 2, 1, 0), ("int", 3))]
                got = [(rig.oid_t(vb.oid), rig.to_tuple(vb.value)) for vb in res[1]] if res[0] == "ok" else None
            else:
                raise ValueError(op)
        except rig.BudgetExceeded:
            R.violation(case, "request budget exceeded in %s" % op, None)
            return
        if not monitor_requests(R, w, dict(case, op=op), level, discovered, user):
            return
        if cover is not None:
            try:
                rec = [r for r in w.agent.requests if "pdu" in r][-1]
                req_l = lengths_of(w.seam.requests[-1], plain=rec.get("plain_scoped"))
                resp_sp = ber.enc_scoped_pdu(w.agent.engine_id, rec["scoped"]["ctx_name"], rec["response_pdu"])
                resp_l = lengths_of(w.seam.responses[-1], plain=resp_sp)
                for name, tup in (("req", req_l), ("resp", resp_l)):
                    for k, v in zip(("msg", "scoped", "pdu"), tup):
                        if v is not None:
                            cover.setdefault((name, k), set()).add(v)
            except (ber.BerError, IndexError, KeyError):
                pass
        w.agent.requests.clear()
        if res[0] != "ok":
            mech = None
            resp = w.seam.responses[-1] if w.seam.responses else b""
            R.violation(dict(case, op=op, response="hex:" + resp.hex()[:600]), "authentic response refused: %r" % (res[1],), mech)
            return
        if got != want:
            R.violation(dict(case, op=op), "accepted but decoded as %r, agent sent %r" % (str(got)[:200], str(want)[:200]), None)
            return
        R.mon["responses_accepted_correct"] += 1


def reboot_scenario(R, level):
    """get, agent reboot, get, get: after the one unavoidable notInTimeWindow report the
    requests carry the NEW boots/time and verify again at the independent agent."""
    db = {(1, 3, 6, 1, 2, 1, 1, 1, 0): ("str", b"x")}
    agent_clock = env.Clock()
    w = World(level, db, clock=agent_clock)
    w.seam.budget = 20
    case = {"level": level, "label": "reboot", "param": 0, "auth_pw": "hex:" + rig.AUTH_PW.hex(), "priv_pw": "hex:" + rig.PRIV_PW.hex(), "engine_id": "hex:", "boots": 1, "tshift": 0, "ops": ["get"], "pad": 0}
    R.case(("c10", level, "reboot"), True)
    oid = OID((1, 3, 6, 1, 2, 1, 1, 1, 0))
    for step in ("get", "jump", "get", "reboot", "get", "get"):
        if step == "jump":
            # the agent's clock runs ahead of the client's notion (one re-synchronisation)
            agent_clock.advance(1000)
            continue
        if step == "reboot":
            w.agent.reboot()
            agent_clock.advance(5)  # engine time is now LOWER than what the client holds
            continue
        res = rig.outcome(lambda: drive(w.client.get(oid)))
        if res[0] != "ok":
            R.violation(case, "request after an agent reboot failed: %r (agent verdicts %r)" % (res[1], [r.get("verdict") for r in w.agent.requests[-3:]]), None)
            return
    if w.agent.counters.get("not_in_window", 0) > 2:
        R.violation(case, "agent saw %d requests outside its window for one clock jump and one reboot" % w.agent.counters["not_in_window"], None)
        return
    last = [r for r in w.agent.requests if r.get("verdict") == "ok"][-1]
    if last["usm"]["boots"] != w.agent.boots:
        R.violation(case, "after the reboot requests carry boots=%d, the engine is at %d" % (last["usm"]["boots"], w.agent.boots), None)
        return
    R.mon["reboot_resync_verified_by_agent"] += 1


def run(R):
    levels4 = rig.AUTH_LEVELS
    k = 0
    # (a) password / engine id / boots sweep
    pws = range(1, 301) if R.tier == "thorough" else QUICK_PW
    for n in pws:
        for li, level in enumerate(levels4):
            k += 1
            if not R.mine(k):
                continue
            if not R.time_left():
                break
            rng = R.rng("pw", n, level)
            auth_pw = bytes(rng.randint(33, 126) for _ in range(n))
            priv_pw = bytes(rng.randint(33, 126) for _ in range(rng.choice((n, 8, 301 - n))))
            eng = bytes([0x80]) + bytes(rng.getrandbits(8) for _ in range(rng.randint(4, 31)))
            if n % 2 == 0:
                # the same user on the same engine with OTHER passwords, within one
                # process: anything remembered per (user, engine) would be stale
                eng = b"\x80\x00\x1f\x88\x04c10-fixed"
            elif n % 3 == 0:
                # a NUL-padded text engine id (RFC 3411 allows it): runs of zero octets
                # as long as the zeroed digest placeholder
                eng = b"\x80\x00\x1f\x88\x04" + b"ab" + b"\x00" * rng.choice((11, 12, 13, 24))
            boots = rng.choice((0, 1, 127, 128, 65535, 2**31 - 2, rng.randint(0, 2**31 - 2)))
            tshift = rng.choice((0, 1, 127, 128, 86400, 10**7, 2**31 - 1))
            one_world(R, level, "pw", n, auth_pw, priv_pw, eng, boots, tshift, ops=("get", "set"), pad=rng.choice((0, 5, 40)))
            R.mon["password_lengths_swept"] += 1
    # (b) length sweep
    cover = {}
    # small fixed parts (5-octet engine id, one-letter user, short OIDs) so that the
    # whole message starts below 100 octets; a second binding of 'extra' octets
    # shifts the lengths so that no value is skipped where an inner length field
    # grows (127/128, 255/256)
    for level in levels4:
        for pad in range(0, 301):
            for extra in (0, 1, 2, 3):
                k += 1
                if not R.mine(k):
                    continue
                if not R.time_left():
                    break
                # variant 3: a one-octet request/message id (clock near zero) moves the
                # PDU and header sizes by three octets, which fills the values that a
                # PDU with a four-octet id can never have (12 + an unreachable list total);
                # its engine id is one octet longer for the same reason one level up
                one_world(R, level, "len", pad * 4 + extra, small_ids=(extra == 3), engine_id=b"\x80\x00\x00\x01\x02" + (b"\x03" if extra == 3 else b""), ops=("get2", "set2"), pad=pad, cover=cover, user="u", extra=extra)
                R.mon["length_sweep_exchanges"] += 2
    # (c) operations on every level incl. noAuthNoPriv
    for level in rig.V3_LEVELS:
        k += 1
        if not R.mine(k):
            continue
        one_world(R, level, "ops", 0, ops=("get", "multiget", "getnext", "bulkget", "set", "multiset", "walk", "bulkwalk"), pad=3)
    # (d) every legal engine id length 5..32 (RFC 3411 SnmpEngineID), on every level
    for level in levels4:
        for n in range(5, 33):
            k += 1
            if not R.mine(k):
                continue
            rng = R.rng("eidlen", n, level)
            eng = bytes([0x80]) + bytes(rng.getrandbits(8) for _ in range(n - 1))
            one_world(R, level, "eidlen", n, engine_id=eng, ops=("get", "set"))
            R.mon["engine_id_lengths_swept"] += 1
    # (f) agents that announce a small msgMaxSize (their RECEIVE limit) and answer with
    # responses larger than that
    for level in levels4:
        for amax in (484, 500, 1472):
            for pad in (300, 600, 1500):
                k += 1
                if not R.mine(k):
                    continue
                AGENT_MAX[0] = amax
                try:
                    one_world(R, level, "agentmax%d" % amax, pad, ops=("get", "set"), pad=pad)
                    R.mon["responses_larger_than_the_agents_msgmaxsize"] += 1
                finally:
                    AGENT_MAX[0] = None
    # (g) a context engine id given by the caller that is NOT the agent's own (a proxied
    # context, an id made with generate_engine_id_text()): the security engine - the one
    # in the security parameters and the one the keys are localised to - stays the
    # discovered one
    for level in levels4:
        for j, ctx in enumerate((bytes.fromhex("800000000468656c6c6f"), bytes.fromhex("8000b85c03aabbccddeeff"), b"\x80" + b"c" * 31)):
            k += 1
            if not R.mine(k):
                continue
            CTX_ENGINE[0] = ctx
            try:
                one_world(R, level, "ctxengine", j, ops=("get", "getnext", "walk", "set"))
                R.mon["exchanges_with_a_foreign_context_engine"] += 1
            finally:
                CTX_ENGINE[0] = b""
    # (h) ONE credentials object for the clients of three devices (engines), in turn:
    # every device accepts its requests (keys localised to ITS engine id) and its
    # responses are accepted
    for level in levels4:
        k += 1
        if not R.mine(k):
            continue
        SHARED_CREDS[0] = rig.credentials_for(level, auth_pw=rig.AUTH_PW, priv_pw=rig.PRIV_PW, user=rig.USER)
        try:
            for turn, j in enumerate((0, 1, 0, 2, 1)):
                one_world(R, level, "sharedcreds", turn, engine_id=bytes.fromhex("80001f8804") + b"device-%d" % j, ops=("get", "set"))
                R.mon["exchanges_with_shared_credentials"] += 1
        finally:
            SHARED_CREDS[0] = None
    # (i) several users of ONE engine whose passwords have the SAME LENGTH and the same
    # protocols but other contents, one after the other in one process, the first one
    # again, and the first user's name with the second user's passwords: anything
    # remembered per engine, per user name or per password length would be stale
    for level in levels4:
        k += 1
        if not R.mine(k):
            continue
        eng = b"\x80\x00\x1f\x88\x04c10-equal-length"
        turns = (("alice", b"equal-length-pw-1", b"equal-length-pv-1"), ("bob", b"equal-length-pw-2", b"equal-length-pv-2"), ("alice", b"equal-length-pw-1", b"equal-length-pv-1"), ("alice", b"equal-length-pw-2", b"equal-length-pv-2"), ("bob", b"equal-length-pw-2", b"equal-length-pv-1"))
        for turn, (u, apw, ppw) in enumerate(turns):
            one_world(R, level, "equallen", turn, apw, ppw, eng, ops=("get", "set"), user=u, pad=2)
            R.mon["exchanges_of_users_with_equally_long_passwords"] += 1
    # (j) pass-phrases are octet strings: surrounding white-space, NUL and high octets are
    # part of them (RFC 3414 A.2 hashes them as they are)
    for level in levels4:
        for j, (apw, ppw) in enumerate(((b" leading-space", b"trailing-space "), (b"tab-and-newline\t\n", b"\r\ncrlf-first"), (b"\x00nul-first", b"nul-last\x00"), (b"high\xff", b"  two  spaces  "))):
            k += 1
            if not R.mine(k):
                continue
            one_world(R, level, "edgepw", j, apw, ppw, ops=("get", "set"), pad=1)
            R.mon["exchanges_with_whitespace_or_nul_in_passphrases"] += 1
    # (e) one client object used as another user first (other hash / other level)
    for level in levels4:
        for prev in rig.V3_LEVELS:
            if prev == level:
                continue
            k += 1
            if not R.mine(k):
                continue
            one_world(R, level, "switch", rig.V3_LEVELS.index(prev), ops=("get", "getnext", "set"), switch_from=prev)
    if R.shard == 0:
        for level in levels4:
            reboot_scenario(R, level)
    for kk, v in cover.items():
        R.notes["set:lengths:%s-%s" % kk] = sorted(n for n in v if 100 <= n <= 300)


def finalize(m, tier):
    """Measured coverage of 100..300 per direction and nesting level (union over shards)."""
    cov = {}
    for key in list(m["notes"]):
        if key.startswith("set:lengths:"):
            seen = set(m["notes"].pop(key))
            missing = [n for n in range(100, 301) if n not in seen]
            cov[key[len("set:lengths:"):]] = {"seen_in_100_300": len(seen), "missing": missing[:20]}
    m["notes"]["length_coverage_100_300"] = cov
    if not m["capped"]:
        short = {k: v["missing"] for k, v in cov.items() if v["missing"]}
        if short or len(cov) < 6:
            m["inconclusive"].append("length sweep did not cover every length in 100..300: %r" % (short or sorted(cov),))


def replay(R, v):
    c = v["case"]
    if c.get("label") == "reboot":
        reboot_scenario(R, c["level"])
        return
    if c.get("label") == "sharedcreds":
        SHARED_CREDS[0] = rig.credentials_for(c["level"], auth_pw=rig.AUTH_PW, priv_pw=rig.PRIV_PW, user=rig.USER)
        try:
            for turn, j in enumerate((0, 1, 0, 2, 1)):
                one_world(R, c["level"], "sharedcreds", turn, engine_id=bytes.fromhex("80001f8804") + b"device-%d" % j, ops=("get", "set"))
        finally:
            SHARED_CREDS[0] = None
        return
    AGENT_MAX[0] = c.get("agent_max")
    CTX_ENGINE[0] = bytes.fromhex(c.get("ctx_engine", "hex:")[4:])
    one_world(
        R, c["level"], c["label"], c["param"],
        auth_pw=bytes.fromhex(c["auth_pw"][4:]), priv_pw=bytes.fromhex(c["priv_pw"][4:]),
        ops=tuple(c.get("ops", ("get",))) if "op" not in c else (c["op"],), pad=c["pad"], boots=c["boots"], tshift=c["tshift"],
        engine_id=bytes.fromhex(c["engine_id"][4:]) or None, user=c.get("user", rig.USER), extra=c.get("extra", 0), small_ids=c.get("small_ids", False), switch_from=c.get("switch_from"),
    )
