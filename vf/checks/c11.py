"""
C11 - with privacy credentials the scoped PDU only ever travels as the
privacy plug-in's ciphertext, produced under the correctly localised key
with the discovered boots/time; encrypted responses are decrypted with the
same key and the parameters found in the message.

The harness supplies the privacy plug-ins through the plug-in namespace
(vf/plugins/puresnmp_plugins/priv): exactly invertible keyed transforms that
record every call (vf/privxf.CALLS).
"""

import hashlib

from .. import rig  # noqa: F401
from .. import ber, env, privxf
from ..rig import OID, World, drive, drive_agen

PROP = "C11"
CHILD_ENV = {"VF_VIRTUAL_MONOTONIC": "1"}  # seconds pass between requests without anybody waiting
LEVEL = "exploration"
SHARDS = {"quick": 4, "thorough": 16}
TIME_CAP = {"quick": 50, "thorough": 600}
N_CASES = {"quick": 700, "thorough": 40000}
RULE = (
    "Privacy users (MD5 / SHA-1 localisation) x harness plug-ins {keyed SHA-256 stream with "
    "8-octet salt, 0-octet salt, 16-octet salt, length-changing invertible framing} x random "
    "auth/priv passwords (1..40 octets), engine ids (5..32), context names, boots/time x "
    "operations {get, multiget, getnext, bulkget, set with a high-entropy marker value, "
    "multiset, walk, bulkwalk}. Monitors on every datagram after discovery: msgData is an "
    "OCTET STRING equal to the ciphertext the plug-in returned for THIS call, "
    "msgPrivacyParameters equal its salt, the key it received == independent localisation "
    "Kul(auth hash, priv password, agent engine id), boots/time it received == those in the "
    "same datagram, its plaintext decodes independently to the intended scoped PDU, no "
    "8-octet window of the plaintext PDU and no SET marker occurs in the datagram; for "
    "responses decrypt_data received the message's own priv-params/engine id/boots/time and "
    "the same key, and the result is correct. One case in three reuses a fixed engine id "
    "(same user, other passwords: stale per-engine state shows), one in four rotates the "
    "privacy password/plug-in on the live client and repeats all monitors, one in ten uses a "
    "privacy password WITHOUT an authentication key (nothing may leave in clear). Distinct by (hash, plug-in, op, key/engine/ctx "
    "lengths)."
    " One case in seven: the discovery report names another context engine than the authorita"
    "tive engine. Deterministic triples of (password, engine id) pairs with equal concatenati"
    "ons (eight separators) run in one process."
    " One case in three: the agent pads the scoped PDU with 1..15 octets before encrypting (R"
    "FC 3414 8.1.1.2). Operations set-refused / get-generr: an encrypted error response surfa"
    "ces as the documented ErrorResponse."
    " \"Later requests\": 1.7 s pass between the requests of one client and the agent clock tic"
    "ks before each answer (responses carry another engine time than their requests)."
    ' One credentials object shared by the clients of three engines; rotated credentials made'
    " from the used object by copy / deepcopy / pickle; one case in six follows another user'"
    's request on the same client that never saw its answer.'
)
ASSUMPTIONS = [
    "the only thing assumed about a privacy plug-in is decrypt(encrypt(x)) == x; all harness plug-ins satisfy it exactly",
    "8-octet windows are taken from the PDU part of the plaintext (the contextEngineID legitimately also travels in clear as msgAuthoritativeEngineID)",
]
REQUIRED_MONITORS = ("encrypt_calls_matched", "decrypt_calls_matched", "plaintext_windows_checked", "marker_checked", "results_correct", "rotations_ok", "priv_without_auth_nothing_in_clear")

VARIANTS = ("vfstream8", "vfstream0", "vfstream16", "vfframe")
OPS = ("get", "multiget", "getnext", "bulkget", "set", "multiset", "walk", "bulkwalk", "set-refused", "get-generr")
BASE = (1, 3, 6, 1, 2, 1, 1)


def run_noauth_priv(R, variant, priv_pw, engine_id, marker):
    """Privacy password WITHOUT an authentication key: nothing may leave in clear."""
    from puresnmp import V3, Client, Priv

    db = {BASE + (4, 0): ("str", b"old")}
    w = World("v3-noauth", db, agent_kwargs={"engine_id": engine_id})
    client = Client("192.0.2.1", V3(rig.USER, None, Priv(priv_pw, variant)), sender=w.seam)
    w.seam.budget = 10
    privxf.CALLS.clear()
    case = {"class": "priv-without-auth", "variant": variant, "priv_pw": "hex:" + priv_pw.hex(), "engine_id": "hex:" + engine_id.hex(), "marker": "hex:" + marker.hex()}
    try:
        res = rig.outcome(lambda: drive(client.set(OID(BASE + (4, 0)), rig.from_tuple(("str", marker)))))
    except rig.BudgetExceeded:
        res = ("exc", "budget")
    R.case(("c11-noauth-priv", variant, len(priv_pw), len(engine_id)), True, sample={**case, "outcome": res[0] if res[0] != "exc" else repr(res[1])[:120], "datagrams": len(w.seam.requests)} if R.evaluations % 53 == 0 else None)
    for raw in w.seam.requests:
        m = ber.decode_message(raw)
        if m["usm"]["engine_id"] == b"" and m["usm"]["user"] == b"":
            continue
        if "scoped" in m or marker in raw:
            R.violation(case, "privacy credentials (no auth key): the scoped PDU left in clear (msgFlags=%d): %s" % (m["flags"], raw.hex()[:160]), None)
            return
    R.mon["priv_without_auth_nothing_in_clear"] += 1


PADDING = [b""]  # octets the agent appends to the scoped PDU before encrypting it


INTERLUDE = [None]  # "lost" / "garbage": another user's call on the same client fails first


def run_case(R, level, variant, op, auth_pw, priv_pw, engine_id, ctx_name, boots, tshift, marker, rotate=None, ctx_engine=b"", report_ctx=None):
    hashname = "md5" if "md5" in level else "sha1"
    db = {BASE + (i, 0): ("str", b"value-%d-" % i + hashlib.sha256(b"v%d" % i).digest()[:10]) for i in range(1, 6)}
    agent_clock = env.Clock()
    agent_clock.now = 5_000_000.0
    w = World(
        level, db,
        agent_kwargs={"engine_id": engine_id, "boots": boots, "any_context": bool(ctx_engine)},
        cred_kwargs={"auth_pw": auth_pw, "priv_pw": priv_pw, "variant": variant},
        client_kwargs={"context_name": ctx_name, "engine_id": ctx_engine},
        clock=agent_clock,
    )
    agent_clock.now += tshift
    if PADDING[0]:
        w.agent.scoped_padding = PADDING[0]
        R.mon["responses_with_block_padding"] += 1
    if report_ctx is not None:
        # the discovery report names ANOTHER context engine in its scoped PDU than the
        # authoritative engine that sends it: keys belong to the authoritative engine
        w.agent.report_context_engine = report_ctx
        R.mon["discovery_reports_naming_another_context_engine"] += 1
    case = {"padding": "hex:" + PADDING[0].hex(), "report_ctx": "hex:" + (report_ctx or b"").hex(), "level": level, "variant": variant, "op": op, "auth_pw": "hex:" + auth_pw.hex(), "priv_pw": "hex:" + priv_pw.hex(), "engine_id": "hex:" + engine_id.hex(),
            "ctx_name": "hex:" + ctx_name.hex(), "ctx_engine": "hex:" + ctx_engine.hex(), "boots": boots, "tshift": tshift, "marker": "hex:" + marker.hex()}
    w.seam.budget = 40
    c = w.client
    case["interlude"] = INTERLUDE[0]
    if INTERLUDE[0]:
        # the path after a failure: inside a reconfigure() block ANOTHER user (other
        # passwords) asks this engine something and never sees the answer - lost, or
        # garbage comes back - and the caller shrugs.  The operation under test is the
        # ordinary next call of the client's own user.
        from puresnmp import V3 as _V3, Auth as _Auth, Priv as _Priv

        a_auth, a_priv = b"admin-" + auth_pw, b"admin-" + priv_pw + b"-2"
        w.agent.users[b"admin"] = rig.agent_user_for(level, user="admin", auth_pw=a_auth, priv_pw=a_priv, variant=variant)
        inner = w.seam.responder

        def unlucky(data, inner=inner, how=INTERLUDE[0]):
            resp = inner(data)
            try:
                encrypted = "encrypted" in ber.decode_message(data)
            except ber.BerError:
                encrypted = False
            if not encrypted:
                return resp  # the discovery goes through
            return None if how == "lost" else b"\x30\x03\x02\x01\x03"

        # (the client's own user has talked to the engine before, successfully)
        rig.outcome(lambda: drive(c.get(OID(BASE + (2, 0)))))
        w.seam.responder = unlucky
        try:
            with c.reconfigure(credentials=_V3("admin", _Auth(a_auth, hashname), _Priv(a_priv, variant))):
                rig.outcome(lambda: drive(c.get(OID(BASE + (1, 0)))))
        except Exception:  # noqa: BLE001
            pass
        finally:
            w.seam.responder = inner
        w.seam.reset(budget=40)
        w.agent.requests.clear()
        w.agent.counters.clear()
        R.mon["cases_after_another_users_failed_call"] += 1
    privxf.CALLS.clear()
    try:
        if op == "get":
            res = rig.outcome(lambda: drive(c.get(OID(BASE + (1, 0)))))
            want = db[BASE + (1, 0)]
            got = rig.to_tuple(res[1]) if res[0] == "ok" else None
        elif op == "multiget":
            res = rig.outcome(lambda: drive(c.multiget([OID(BASE + (2, 0)), OID(BASE + (3, 0))])))
            want = [db[BASE + (2, 0)], db[BASE + (3, 0)]]
            got = [rig.to_tuple(v) for v in res[1]] if res[0] == "ok" else None
        elif op == "getnext":
            res = rig.outcome(lambda: drive(c.getnext(OID(BASE + (2, 0)))))
            want = (BASE + (3, 0), db[BASE + (3, 0)])
            got = (rig.oid_t(res[1].oid), rig.to_tuple(res[1].value)) if res[0] == "ok" else None
        elif op == "bulkget":
            res = rig.outcome(lambda: drive(c.bulkget([], [OID(BASE + (3,))], max_list_size=2)))
            want = [(BASE + (3, 0), db[BASE + (3, 0)]), (BASE + (4, 0), db[BASE + (4, 0)])]
            got = [(rig.oid_t(k), rig.to_tuple(v)) for k, v in res[1].listing.items()] if res[0] == "ok" else None
        elif op == "set":
            res = rig.outcome(lambda: drive(c.set(OID(BASE + (4, 0)), rig.from_tuple(("str", marker)))))
            want = ("str", marker)
            got = rig.to_tuple(res[1]) if res[0] == "ok" else None
        elif op in ("set-refused", "get-generr"):
            # the agent refuses: its error response is encrypted like any other response
            # and has to come out as the documented ErrorResponse, not as a decryption error
            status = 17 if op == "set-refused" else 5

            def refuse(req, resp, status=status):
                return {"type": 0xA2, "request_id": resp["request_id"], "error_status": status, "error_index": 0 if op == "get-generr" else 1, "varbinds": [(o, ("null", None)) for o, _ in req["varbinds"]]}

            w.agent.pdu_hook = refuse
            if op == "set-refused":
                res0 = rig.outcome(lambda: drive(c.set(OID(BASE + (4, 0)), rig.from_tuple(("str", marker)))))
            else:
                res0 = rig.outcome(lambda: drive(c.get(OID(BASE + (1, 0)))))
            w.agent.pdu_hook = None
            from puresnmp.exc import ErrorResponse as _ER

            ok = res0[0] == "exc" and isinstance(res0[1], _ER) and getattr(res0[1], "error_status", None) == status
            res = ("ok", None) if ok else ("exc", res0[1] if res0[0] == "exc" else RuntimeError("error-status %d came back as data: %r" % (status, res0[1])))
            want = got = None
            if ok:
                R.mon["encrypted_error_responses_raised_as_documented"] += 1
        elif op == "multiset":
            res = rig.outcome(lambda: drive(c.multiset({OID(BASE + (4, 0)): rig.from_tuple(("opaque", marker)), OID(BASE + (5, 0)): rig.from_tuple(("int", 5))})))
            want = {BASE + (4, 0): ("opaque", marker), BASE + (5, 0): ("int", 5)}
            got = {rig.oid_t(k): rig.to_tuple(v) for k, v in res[1].items()} if res[0] == "ok" else None
        elif op == "walk":
            res = rig.outcome(lambda: drive_agen(c.walk(OID(BASE)), limit=30))
            want = sorted(db.items())
            got = [(rig.oid_t(vb.oid), rig.to_tuple(vb.value)) for vb in res[1]] if res[0] == "ok" else None
        elif op == "bulkwalk":
            res = rig.outcome(lambda: drive_agen(c.bulkwalk([OID(BASE)], bulk_size=3), limit=30))
            want = sorted(db.items())
            got = [(rig.oid_t(vb.oid), rig.to_tuple(vb.value)) for vb in res[1]] if res[0] == "ok" else None
        else:
            raise ValueError(op)
    except rig.BudgetExceeded:
        R.violation(case, "request budget exceeded", None)
        return
    fp = ("c11", level, variant, op, len(auth_pw), len(priv_pw), len(engine_id), len(ctx_name))
    calls = list(privxf.CALLS)
    R.case(fp, bool(calls), sample={**case, "datagram": w.seam.requests[-1].hex()[:300] if w.seam.requests else None, "plugin_calls": len(calls)} if R.evaluations % 97 == 0 else None)

    want_key = ber.localized_key(hashname, priv_pw, engine_id)
    enc_calls = [x for x in calls if x["op"] == "encrypt"]
    dec_calls = [x for x in calls if x["op"] == "decrypt"]
    reqs = []
    for raw in w.seam.requests:
        try:
            m = ber.decode_message(raw)
        except ber.BerError as exc:
            R.violation(case, "datagram not decodable: %s" % exc, None)
            return
        if m["version"] == 3 and m["usm"]["engine_id"] == b"" and m["usm"]["user"] == b"":
            R.mon["discovery_probes"] += 1
            continue
        reqs.append((raw, m))
    if len(enc_calls) != len(reqs):
        R.violation(case, "%d datagrams left after discovery but the plug-in encrypted %d times" % (len(reqs), len(enc_calls)), None)
        return
    for (raw, m), call in zip(reqs, enc_calls):
        if "encrypted" not in m:
            R.violation(case, "msgData is not an OCTET STRING: the scoped PDU left in clear (%s)" % raw.hex()[:120], None)
            return
        if not m["flags"] & 2 or not m["flags"] & 1:
            R.violation(case, "privacy datagram with msgFlags=%d" % m["flags"], None)
            return
        if m["encrypted"] != call["ciphertext"]:
            R.violation(case, "msgData is not the ciphertext the plug-in returned for this call", None)
            return
        if m["usm"]["priv"] != call["salt"]:
            R.violation(case, "msgPrivacyParameters %s != plug-in salt %s" % (m["usm"]["priv"].hex(), call["salt"].hex()), None)
            return
        if call["key"] != want_key:
            R.violation(case, "plug-in received key %s, independent Kul(%s, priv password, engine) is %s" % (call["key"].hex(), hashname, want_key.hex()), None)
            return
        if call["engine_id"] != engine_id or m["usm"]["engine_id"] != engine_id:
            R.violation(case, "engine id given to the plug-in %s / in the datagram %s, agent's is %s" % (call["engine_id"].hex(), m["usm"]["engine_id"].hex(), engine_id.hex()), None)
            return
        if (call["boots"], call["time"]) != (m["usm"]["boots"], m["usm"]["time"]):
            R.violation(case, "plug-in got boots/time %r, the datagram carries %r" % ((call["boots"], call["time"]), (m["usm"]["boots"], m["usm"]["time"])), None)
            return
        try:
            sp = ber.dec_scoped_pdu(call["plaintext"], 0, len(call["plaintext"]))
        except ber.BerError as exc:
            R.violation(case, "plaintext handed to the plug-in is not a scoped PDU: %s" % exc, None)
            return
        if sp["ctx_engine"] != (ctx_engine or engine_id) or sp["ctx_name"] != ctx_name:
            R.violation(case, "scoped PDU context (%s, %r), intended (%s, %r)" % (sp["ctx_engine"].hex(), sp["ctx_name"], (ctx_engine or engine_id).hex(), ctx_name), None)
            return
        p0, p1 = sp["pdu"]["span"]
        pdu_plain = call["plaintext"][p0:p1]
        for i in range(0, max(len(pdu_plain) - 7, 0)):
            if pdu_plain[i : i + 8] in raw:
                R.violation(case, "8 plaintext octets of the PDU (%s at offset %d) are visible in the datagram" % (pdu_plain[i : i + 8].hex(), i), None)
                return
        R.mon["plaintext_windows_checked"] += max(len(pdu_plain) - 7, 0)
        if marker in raw:
            R.violation(case, "the SET marker value is visible in the datagram", None)
            return
        R.mon["marker_checked"] += 1
        R.mon["encrypt_calls_matched"] += 1
    # responses
    resps = []
    for raw in w.seam.responses:
        m = ber.decode_message(raw)
        if "encrypted" in m:
            resps.append((raw, m))
    if len(dec_calls) != len(resps):
        R.violation(case, "%d encrypted responses, %d decrypt calls" % (len(resps), len(dec_calls)), None)
        return
    for (raw, m), call in zip(resps, dec_calls):
        u = m["usm"]
        if call["salt"] != u["priv"] or call["engine_id"] != u["engine_id"] or (call["boots"], call["time"]) != (u["boots"], u["time"]) or call["ciphertext"] != m["encrypted"]:
            R.violation(case, "decrypt_data did not receive the message's own parameters: %r vs %r" % ({k: (v.hex() if isinstance(v, bytes) else v) for k, v in call.items() if k in ("salt", "engine_id", "boots", "time")}, {k: (v.hex() if isinstance(v, bytes) else v) for k, v in u.items() if k in ("priv", "engine_id", "boots", "time")}), None)
            return
        if call["key"] != want_key:
            R.violation(case, "decrypt_data received key %s, expected %s" % (call["key"].hex(), want_key.hex()), None)
            return
        R.mon["decrypt_calls_matched"] += 1
    if res[0] != "ok":
        R.violation(case, "round trip failed: %r" % (res[1],), None)
        return
    if got != want:
        R.violation(case, "round trip returned %r, expected %r" % (str(got)[:200], str(want)[:200]), None)
        return
    bad = {k: v for k, v in w.agent.counters.items() if k in ("decrypt_error", "wrong_digest", "not_in_window") and v}
    if bad:
        R.violation(case, "agent counters %r" % bad, None)
        return
    R.mon["results_correct"] += 1
    if rotate is not None:
        # the privacy password is rotated on the SAME client / user / engine:
        # every monitor above must hold again under the new key
        new_pw, new_variant = rotate
        from puresnmp import V3, Auth, Priv

        if new_pw is None:
            # same privacy password, same engine, but the user now authenticates with the
            # OTHER hash: the privacy key is localised with that hash, so it changes too
            new_pw = priv_pw
            hashname = "sha1" if hashname == "md5" else "md5"
            level = "v3-%s-priv" % hashname
        w.agent.users[rig.USER.encode()] = rig.agent_user_for(level, auth_pw=auth_pw, priv_pw=new_pw, variant=new_variant)
        new_creds = None
        how = ("fresh", "copy", "deepcopy", "pickle")[(len(auth_pw) + len(priv_pw) + len(engine_id) + boots) % 4]
        if how != "fresh":
            # the new credentials are made FROM the used ones, as the plain Python object
            # they are: copied (or brought back from a pickle), then given the new password
            import copy
            import pickle

            try:
                new_creds = {"copy": copy.copy, "deepcopy": copy.deepcopy, "pickle": lambda x: pickle.loads(pickle.dumps(x))}[how](w.creds)
                new_creds.auth = Auth(auth_pw, hashname)
                new_creds.priv = Priv(new_pw, new_variant)
                R.mon["rotations_with_credentials_made_by_%s" % how] += 1
            except Exception:  # noqa: BLE001 - credentials that refuse to be copied/changed: made afresh
                new_creds = None
                R.mon["credentials_refused_copy_or_change"] += 1
        if new_creds is None:
            new_creds = V3(rig.USER, Auth(auth_pw, hashname), Priv(new_pw, new_variant))
        c.configure(credentials=new_creds)
        privxf.CALLS.clear()
        n0 = len(w.seam.requests)
        res2 = rig.outcome(lambda: drive(c.get(OID(BASE + (1, 0)))))
        want_key2 = ber.localized_key(hashname, new_pw, engine_id)
        calls2 = list(privxf.CALLS)
        bad = [x for x in calls2 if x["key"] != want_key2]
        if bad:
            R.violation(dict(case, rotated_priv_pw="hex:" + new_pw.hex()), "after the privacy password was changed the plug-in still received key %s (new Kul is %s)" % (bad[0]["key"].hex(), want_key2.hex()), None)
            return
        if res2[0] != "ok" or rig.to_tuple(res2[1]) != db[BASE + (1, 0)]:
            R.violation(dict(case, rotated_priv_pw="hex:" + new_pw.hex()), "round trip after rotating the privacy password failed: %r" % (res2[1],), None)
            return
        for raw in w.seam.requests[n0:]:
            m = ber.decode_message(raw)
            if "encrypted" not in m:
                R.violation(case, "after rotation: msgData not encrypted", None)
                return
        R.mon["rotations_ok"] += 1


FIXED_ENGINE = bytes.fromhex("80001f8804") + b"c11-fixed-engine"


def run(R):
    n = N_CASES[R.tier]
    if R.shard == 1 % R.nshards:
        ambiguous_pairs(R)
    if R.shard == 2 % R.nshards:
        later_requests(R)
    if R.shard == 3 % R.nshards:
        shared_credentials(R)
    for i in range(n):
        if not R.mine(i):
            continue
        if not R.time_left():
            break
        rng = R.rng(i)
        level = ("v3-md5-priv", "v3-sha1-priv")[i % 2]
        variant = VARIANTS[(i // 2) % len(VARIANTS)]
        op = OPS[(i // 8) % len(OPS)]
        auth_pw = bytes(rng.randint(33, 126) for _ in range(rng.choice((1, 8, 13, 40))))
        priv_pw = bytes(rng.randint(33, 126) for _ in range(rng.choice((1, 8, 13, 40))))
        engine_id = bytes([0x80]) + bytes(rng.getrandbits(8) for _ in range(rng.randint(4, 31)))
        ctx_name = bytes(rng.getrandbits(8) for _ in range(rng.choice((0, 0, 3, 32))))
        boots = rng.choice((0, 1, 255, 65536, 2**31 - 2))
        tshift = rng.choice((0, 5, 86400, 10**8))
        marker = hashlib.sha256(b"marker-%d-%d" % (R.seed, i)).digest()[:16]
        if i % 5 == 2:
            # pass-phrases are octet strings: surrounding white-space, NUL and high octets
            # belong to them (RFC 3414 A.2 hashes them as they are)
            edge = (b" ", b"\t", b"\n", b"\r\n", b"\x00", b"\xff", b"  ")
            priv_pw = edge[i % 7] + priv_pw + edge[(i // 7) % 7]
            if i % 2:
                auth_pw = edge[(i // 3) % 7] + auth_pw + edge[(i // 5) % 7]
            R.mon["passphrases_with_surrounding_whitespace_or_nul"] += 1
        if i % 3 == 0:
            # same user on the same engine across cases of this process, with other
            # passwords: anything remembered per (user, engine) becomes stale
            engine_id = FIXED_ENGINE
        rotate = None
        if i % 4 == 1:
            rotate = (bytes(rng.randint(33, 126) for _ in range(rng.choice((1, 8, 13)))), VARIANTS[(i // 4) % len(VARIANTS)])
        elif i % 4 == 3:
            rotate = (None, variant)  # switch md5 <-> sha1, keep the privacy password
        # a configured CONTEXT engine id (a proxied device) differs from the agent's
        # authoritative engine id: keys are localised with the latter
        ctx_engine = bytes([0x80]) + bytes(rng.getrandbits(8) for _ in range(rng.randint(4, 20))) if i % 5 == 4 else b""
        if i % 25 == 4:
            ctx_engine = rng.choice((b"\x00", bytes(5), bytes(12)))
        report_ctx = bytes([0x80]) + bytes(rng.getrandbits(8) for _ in range(rng.randint(4, 31))) if i % 7 == 3 else None
        # one case in three: the agent pads the scoped PDU to a block size before encrypting
        PADDING[0] = bytes(rng.choice((0, 1, 2, 7, 8, 0xFF)) for _ in range(rng.choice((1, 2, 3, 7, 8, 15)))) if i % 3 == 1 else b""
        INTERLUDE[0] = ("lost", "garbage")[(i // 6) % 2] if i % 6 == 2 else None
        try:
            run_case(R, level, variant, op, auth_pw, priv_pw, engine_id, ctx_name, boots, tshift, marker, rotate=rotate, ctx_engine=ctx_engine, report_ctx=report_ctx)
        finally:
            INTERLUDE[0] = None
        PADDING[0] = b""
        if i % 10 == 7:
            run_noauth_priv(R, variant, priv_pw, engine_id, marker)


def shared_credentials(R):
    """ONE credentials object serves the clients of several devices (engines) in one
    process, turn and turn about: each device's traffic is under the key localised to ITS
    engine."""
    db = {BASE + (i, 0): ("str", b"shared-%d" % i) for i in range(1, 4)}
    for level in ("v3-md5-priv", "v3-sha1-priv"):
        hashname = "md5" if "md5" in level else "sha1"
        for variant in VARIANTS[:2]:
            ck = {"auth_pw": b"shared-auth-pw", "priv_pw": b"shared-priv-pw", "variant": variant}
            creds = rig.credentials_for(level, **ck)
            engines = [bytes.fromhex("80001f8804") + b"shared-%d" % j for j in range(3)]
            worlds = [World(level, db, agent_kwargs={"engine_id": e}, cred_kwargs=ck, creds=creds) for e in engines]
            case = {"class": "shared-credentials", "level": level, "variant": variant}
            for turn in range(7):
                j = (turn * 2) % 3 if turn < 5 else turn % 3
                w, eng = worlds[j], engines[j]
                want_key = ber.localized_key(hashname, b"shared-priv-pw", eng)
                privxf.CALLS.clear()
                w.seam.budget = 40
                R.evaluations += 1
                res = rig.outcome(lambda: drive(w.client.get(OID(BASE + (1 + turn % 3, 0)))))
                calls = list(privxf.CALLS)
                bad = [x for x in calls if x["key"] != want_key or x["engine_id"] != eng]
                if bad:
                    R.violation(case, "device %d (engine %s), turn %d: the plug-in received key %s for engine %s, Kul for this engine is %s" % (j, eng.hex(), turn, bad[0]["key"].hex(), bad[0]["engine_id"].hex(), want_key.hex()), None)
                    return
                if res[0] != "ok" or rig.to_tuple(res[1]) != db[BASE + (1 + turn % 3, 0)] or not calls:
                    R.violation(case, "device %d, turn %d: round trip failed: %r (%d plug-in calls)" % (j, turn, res[1], len(calls)), None)
                    return
                badc = {k: v for k, v in w.agent.counters.items() if k in ("decrypt_error", "wrong_digest") and v}
                if badc:
                    R.violation(case, "device %d agent counters %r" % (j, badc), None)
                    return
                R.mon["shared_credentials_exchanges_ok"] += 1
            R.case(("c11-shared", level, variant), True)


def later_requests(R):
    """A client keeps talking for a while: seconds pass between its requests (its engine
    time estimate moves on) and the agent's clock ticks between receiving a request and
    answering it (the response carries another engine time than the request).  Every
    request is encrypted under the boots/time it announces, every response decrypted with
    the boots/time/salt IT carries."""
    db = {BASE + (i, 0): ("str", b"later-%d-" % i + hashlib.sha256(b"l%d" % i).digest()[:8]) for i in range(1, 4)}
    for level in ("v3-md5-priv", "v3-sha1-priv"):
        for variant in VARIANTS:
            env.CLOCK.freeze(1_700_000_000.0)
            agent_clock = env.Clock()
            agent_clock.now = 7_000_000.0
            w = World(level, db, agent_kwargs={"boots": 3}, cred_kwargs={"variant": variant}, clock=agent_clock)
            inner = w.agent.handle

            def ticking(data):
                agent_clock.now += 1.0  # the device is slow: its clock ticks before it answers
                return inner(data)

            w.set_responder(ticking)
            case = {"class": "later-requests", "level": level, "variant": variant}
            for step in range(7):
                privxf.CALLS.clear()
                w.seam.reset(budget=8)
                res = rig.outcome(lambda: drive(w.client.get(OID(BASE + (1 + step % 3, 0)))))
                R.case(("c11-later", level, variant, step), True)
                if res[0] != "ok" or rig.to_tuple(res[1]) != db[BASE + (1 + step % 3, 0)]:
                    R.violation(case, "request %d of a client that keeps talking (%.1f s after its first): %r" % (step + 1, step * 1.7, res[1]), None)
                    break
                enc = [c for c in privxf.CALLS if c["op"] == "encrypt"]
                dec = [c for c in privxf.CALLS if c["op"] == "decrypt"]
                bad = None
                for call, raw in zip(enc, [r for r in w.seam.requests if ber.decode_message(r)["usm"]["user"]]):
                    u = ber.decode_message(raw)["usm"]
                    if (call["boots"], call["time"]) != (u["boots"], u["time"]):
                        bad = "request %d was encrypted under boots/time %r but announces %r" % (step + 1, (call["boots"], call["time"]), (u["boots"], u["time"]))
                for call, raw in zip(dec, [r for r in w.seam.responses if "encrypted" in ber.decode_message(r)]):
                    u = ber.decode_message(raw)["usm"]
                    if (call["boots"], call["time"], call["salt"]) != (u["boots"], u["time"], u["priv"]):
                        bad = "response %d was decrypted with boots/time %r, it carries %r" % (step + 1, (call["boots"], call["time"]), (u["boots"], u["time"]))
                if bad or not enc or not dec:
                    R.violation(case, bad or "no plug-in call observed for request %d" % (step + 1), None)
                    break
                # 1.7 s pass for everybody
                env.CLOCK.advance(1.7)
                agent_clock.now += 1.7
            else:
                R.mon["later_request_series_ok"] += 1
    env.CLOCK.freeze(1_700_000_000.0)


def ambiguous_pairs(R):
    """Two (password, engine id) pairs in ONE process whose concatenation - plain or with
    a separator octet - is the same byte string: anything remembered under a joined key
    would hand the second device the first one's localised key."""
    marker = hashlib.sha256(b"ambiguous").digest()[:16]
    k = 0
    for sep in (b"", b"\x00", b":", b"|", b"/", b",", b"\x00\x00", b"\xff"):
        for a in (b"", b"\x80\x00", b"\x00"):
            if not a and not sep:
                continue
            k += 1
            b_ = bytes.fromhex("00000963") + b"ore-sw%d" % k
            e1 = a + sep + b_
            for which in ("priv", "auth", "both"):
                p1 = b"s3cr3t-%d" % k
                p2 = p1 + sep + a
                for level in ("v3-md5-priv", "v3-sha1-priv"):
                    for (pw, eng) in ((p1, e1), (p2, b_), (p1, e1)):
                        auth_pw = pw if which in ("auth", "both") else b"auth-password"
                        priv_pw = pw if which in ("priv", "both") else b"priv-password"
                        run_case(R, level, VARIANTS[k % len(VARIANTS)], "set", auth_pw, priv_pw, eng, b"", 3, 0, marker)
                        R.mon["ambiguous_join_cases"] += 1


def replay(R, v):
    if v["case"].get("class") == "shared-credentials":
        shared_credentials(R)
        return
    c = v["case"]
    h = lambda k: bytes.fromhex(c[k][4:])  # noqa: E731
    PADDING[0] = bytes.fromhex(c.get("padding", "hex:")[4:])
    INTERLUDE[0] = c.get("interlude")
    if c.get("class") == "later-requests":
        later_requests(R)
        return
    if c.get("class") == "priv-without-auth":
        run_noauth_priv(R, c["variant"], h("priv_pw"), h("engine_id"), h("marker"))
        return
    rotate = (h("rotated_priv_pw"), c["variant"]) if "rotated_priv_pw" in c else None
    if rotate is not None and rotate[0] == h("priv_pw"):
        rotate = (None, c["variant"])
    run_case(R, c["level"], c["variant"], c["op"], h("auth_pw"), h("priv_pw"), h("engine_id"), h("ctx_name"), c["boots"], c["tshift"], h("marker"), rotate=rotate, ctx_engine=bytes.fromhex(c.get("ctx_engine", "hex:")[4:]), report_ctx=bytes.fromhex(c.get("report_ctx", "hex:")[4:]) or None)
