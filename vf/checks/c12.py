"""
C12 - discovery happens first, the discovered engine id is used, bad
discovery replies are refused, and the engine boots/time the client sends
stay inside the agent's 150 s window for the client's whole life: every
operation of every generated history succeeds.

The client's clock and the agent's engine clock are the SAME virtual clock
(time.time and, in this check only, time.monotonic), so there is no drift
and the window has no grey zone.
"""

from .. import rig  # noqa: F401
from .. import ber, env
from ..rig import OID, World, drive, drive_agen

PROP = "C12"
LEVEL = "exploration"
SHARDS = {"quick": 4, "thorough": 16}
TIME_CAP = {"quick": 50, "thorough": 600}
N_CASES = {"quick": 900, "thorough": 50000}
CHILD_ENV = {"VF_VIRTUAL_MONOTONIC": "1"}
RULE = (
    "Histories of 3..30 steps over {operation in get/multiget/getnext/set/bulkget/walk, "
    "advance the shared virtual clock by d in {1 s, 100 s, 149 s, 151 s, 1 h, 3 d}, agent "
    "reboot (boots+1, time:=0)} on one client per security level (noAuthNoPriv, authNoPriv, "
    "authPriv x MD5/SHA-1), with and without a configured context engine id. Monitors: the "
    "first datagram of a fresh client is the discovery probe (empty engine id and user, "
    "noAuthNoPriv, reportable, empty binding list); no request precedes discovery; later "
    "requests carry the discovered engine id as security engine id and default context "
    "engine id; EVERY operation of the history succeeds with the database truth; the agent's "
    "notInTimeWindow verdicts never exceed the number of reboots (0 without reboots). "
    "Discovery-reply class: wrong message id / no bindings / empty first binding => refused "
    "and no request follows. Distinct by (level, history shape)."
    " Wrong message ids also relative to the probe (+-2^32, +2^33, +-2^31, +2^16, +2^8, +2^64"
    ", negated, sign bit flipped); one history in five has reports whose scoped PDU names no "
    "or another context engine."
    " One history in five runs against an agent doing discovery in two steps (boots = time = "
    "0 in the unauthenticated report); \"drift\" steps make the agent clock run fast by 10..864"
    "00 s (one more re-synchronisation permitted each)."
    " \"wallstep\" steps change only what time.time shows (-400 days .. +1 day) while no time p"
    "asses."
    ' Histories contain operations that fail on the way (datagram k lost or answered with gar'
    'bage): their own outcome is not judged, the operations after them are; requests the agen'
    't found outside its window during such an operation are permitted on top of one per rebo'
    'ot / drift.'
)
ASSUMPTIONS = [
    "the unbounded 'succeeds any time later' is restated as bounded progress: every operation of every generated history",
    "after an agent reboot one notInTimeWindow report per reboot is unavoidable (the client cannot know); it must be handled transparently",
    "client and agent share one virtual clock, so the 150 s window has no grey zone",
]
REQUIRED_MONITORS = ("histories_ok", "ops_ok_after_advance_gt_150", "ops_ok_after_reboot", "discovery_probe_checked", "bad_discovery_refused")

DB = {(1, 3, 6, 1, 2, 1, 1, i, 0): ("int", i) for i in range(1, 6)}
K = sorted(DB)
ADV = (1, 100, 149, 151, 3600, 3 * 86400)
OPS = ("get", "multiget", "getnext", "set", "bulkget", "walk")


def do_op(w, op, n):
    c = w.client
    if op == "get":
        return rig.to_tuple(drive(c.get(OID(K[n % 5])))), w.agent.db[K[n % 5]]
    if op == "multiget":
        return [rig.to_tuple(v) for v in drive(c.multiget([OID(K[0]), OID(K[1])]))], [w.agent.db[K[0]], w.agent.db[K[1]]]
    if op == "getnext":
        vb = drive(c.getnext(OID(K[1])))
        return (rig.oid_t(vb.oid), rig.to_tuple(vb.value)), (K[2], w.agent.db[K[2]])
    if op == "set":
        val = ("int", 1000 + n)
        return rig.to_tuple(drive(c.set(OID(K[3]), rig.from_tuple(val)))), val
    if op == "bulkget":
        br = drive(c.bulkget([], [OID(K[0])], max_list_size=2))
        return [(rig.oid_t(k), rig.to_tuple(v)) for k, v in br.listing.items()], [(K[1], w.agent.db[K[1]]), (K[2], w.agent.db[K[2]])]
    if op == "walk":
        got = [(rig.oid_t(vb.oid), rig.to_tuple(vb.value)) for vb in drive_agen(c.walk(OID((1, 3, 6, 1, 2, 1, 1))), limit=20)]
        return got, sorted(w.agent.db.items())
    raise ValueError(op)


def check_probe(R, case, raw):
    try:
        m = ber.decode_message(raw)
    except ber.BerError as exc:
        return "first datagram does not decode: %s" % exc
    if m["version"] != 3:
        return "first datagram has version %d" % m["version"]
    u = m["usm"]
    if u["engine_id"] != b"" or u["user"] != b"" or u["auth"] != b"" or u["priv"] != b"":
        return "first datagram is not a discovery probe: engine id %r user %r" % (u["engine_id"], u["user"])
    if m["flags"] != 4:
        return "discovery probe msgFlags=%d, expected 4 (noAuthNoPriv, reportable)" % m["flags"]
    if "scoped" not in m or m["scoped"]["pdu"]["varbinds"]:
        return "discovery probe must carry an empty binding list in clear"
    R.mon["discovery_probe_checked"] += 1
    return None


def run_history(R, level, steps, ctx_engine, boots0, report_ctx=None, two_step=False):
    env.CLOCK.freeze(1_700_000_000.0)
    env.CLOCK.wall_offset = 0.0
    ckw = {"engine_id": ctx_engine} if ctx_engine else {}
    w = World(level, DB, client_kwargs=ckw, agent_kwargs={"boots": boots0, "any_context": bool(ctx_engine)})
    if report_ctx is not None:
        # the agent's reports (discovery, notInTimeWindow) name another - or no - context
        # engine in their scoped PDU; the DISCOVERED engine id is the authoritative one
        # of the security parameters
        w.agent.report_context_engine = bytes.fromhex(report_ctx)
        R.mon["histories_with_reports_naming_another_context_engine"] += 1
    if two_step:
        # RFC 3414 section 4: the discovery report carries boots = time = 0, the real
        # values come with the authenticated notInTimeWindow report of the second step
        w.agent.two_step_discovery = True
        R.mon["histories_with_two_step_discovery"] += 1
    w.seam.budget = 40 * len(steps) + 10
    case = {"two_step": two_step, "report_ctx": report_ctx, "level": level, "steps": [list(s) for s in steps], "ctx_engine": "hex:" + ctx_engine.hex(), "boots0": boots0}
    shape = tuple((s[0], s[1] if s[0] != "op" else s[1]) for s in steps)
    R.case(("c12", level, shape, bool(ctx_engine)), True, sample=case if R.evaluations % 151 == 0 else None)
    reboots = 0
    since_disco = 0.0
    max_adv_seen = 0.0
    rebooted_since_op = False
    nop = 0
    try:
        for i, st in enumerate(steps):
            if st[0] == "advance":
                env.CLOCK.advance(st[1])
                since_disco += st[1]
                continue
            if st[0] == "reboot":
                w.agent.reboot()
                reboots += 1
                rebooted_since_op = True
                continue
            if st[0] == "wallstep":
                # the client host's WALL clock is stepped (NTP, an administrator, a VM
                # resume); no time has passed for anybody
                env.CLOCK.wall_offset += st[1]
                R.mon["wall_clock_steps"] += 1
                continue
            if st[0] == "drift":
                # the agent's clock runs FAST: its engine time is ahead of what elapsed
                # for the client (same boots); beyond 150 s the agent says notInTimeWindow
                # once and the client has to follow the reported time from then on
                w.agent.boot_epoch -= st[1]
                reboots += 1  # counts as one more permitted re-synchronisation
                R.mon["agent_clock_drifts"] += 1
                continue
            if st[0] == "failop":
                # an operation that FAILS on the way: datagram number k of it gets no answer
                # (the sender's Timeout) or garbage back.  Its own outcome is not judged;
                # whatever it left behind, the operations after it are ordinary ones.
                how, kth = st[1].rsplit("-", 1)
                inner, seen = w.seam.responder, {"n": 0}

                def failing(data, how=how, kth=int(kth), inner=inner, seen=seen):
                    seen["n"] += 1
                    good = inner(data)
                    if seen["n"] == kth:
                        return None if how == "drop" else b"\x30\x03\x02\x01\x03"
                    return good

                w.seam.responder = failing
                try:
                    rig.outcome(lambda: do_op(w, "get", 900 + i))
                finally:
                    w.seam.responder = inner
                # requests of the FAILED operation that the agent found outside its window
                # (its report may be the very datagram that got lost, so the next operation
                # has to re-synchronise again): permitted, on top of one per reboot / drift
                reboots += sum(1 for r in w.agent.requests if r.get("verdict") == "not_in_window")
                w.agent.requests.clear()
                R.mon["operations_that_failed_on_the_way"] += 1
                continue
            nop += 1
            nreq0 = len(w.seam.requests)
            res = rig.outcome(lambda: do_op(w, st[1], nop))
            if nop == 1:
                problem = check_probe(R, case, w.seam.requests[0]) if w.seam.requests else "no datagram at all"
                if problem:
                    R.violation(case, problem, None)
                    return
            if res[0] != "ok":
                verdicts = [r.get("verdict") for r in w.agent.requests[-3:]]
                mech = None
                if "not_in_window" in verdicts:
                    mech = "no-resync-after-reboot" if reboots else "engine-time-frozen"
                R.violation(dict(case, failed_step=i), "step %d (%s) failed %.0f s after discovery, %d reboots: %r; agent verdicts %r" % (i, st[1], since_disco, reboots, res[1], verdicts), mech)
                return
            got, want = res[1]
            if got != want:
                R.violation(dict(case, failed_step=i), "step %d (%s) returned %r, expected %r" % (i, st[1], str(got)[:120], str(want)[:120]), None)
                return
            if since_disco > 150:
                R.mon["ops_ok_after_advance_gt_150"] += 1
            if rebooted_since_op:
                R.mon["ops_ok_after_reboot"] += 1
                rebooted_since_op = False
            # requests of this op: security engine id / context engine id
            for rec in w.agent.requests:
                if rec.get("discovery") or "usm" not in rec:
                    continue
                if rec["verdict"] == "ok":
                    if rec["usm"]["engine_id"] != w.agent.engine_id:
                        R.violation(case, "security engine id %s is not the discovered one" % rec["usm"]["engine_id"].hex(), None)
                        return
                    want_ctx = ctx_engine or w.agent.engine_id
                    if rec["scoped"]["ctx_engine"] != want_ctx:
                        R.violation(case, "context engine id %s, expected %s" % (rec["scoped"]["ctx_engine"].hex(), want_ctx.hex()), None)
                        return
            w.agent.requests.clear()
    except rig.BudgetExceeded:
        R.violation(case, "request budget exceeded", None)
        return
    niw = w.agent.counters.get("not_in_window", 0)
    if level != "v3-noauth" and niw > reboots + (1 if two_step else 0):
        R.violation(case, "agent saw %d requests outside its time window, only %d reboots happened" % (niw, reboots), "engine-time-frozen" if not reboots else None)
        return
    bad = {k: v for k, v in w.agent.counters.items() if k in ("wrong_digest", "unknown_user", "decrypt_error", "unsupported_level") and v}
    if bad:
        R.violation(case, "agent counters %r" % bad, None)
        return
    R.mon["histories_ok"] += 1
    R.mon["ops_ok"] += nop
    R.mon["notinwindow_reports_absorbed"] += niw


def run_bad_discovery(R, level, kind):
    env.CLOCK.freeze(1_700_000_000.0)
    env.CLOCK.wall_offset = 0.0
    w = World(level, DB)
    inner = w.agent.handle
    state = {"n": 0}

    def responder(data):
        resp = inner(data)
        state["n"] += 1
        if state["n"] != 1 or resp is None:
            return resp
        m = ber.decode_message(resp)
        pdu = dict(m["scoped"]["pdu"])
        msg_id = m["msg_id"]
        if kind == "wrong-msgid":
            msg_id += 1
        elif kind.startswith("msgid+"):
            msg_id += int(kind[6:])
        elif kind.startswith("msgid-"):
            msg_id -= int(kind[6:])
        elif kind == "msgid-negated":
            msg_id = -msg_id
        elif kind == "msgid-xor-sign":
            msg_id ^= 0x80000000
        elif kind.startswith("msgid="):
            if int(kind[6:]) == msg_id:
                msg_id += 1
            else:
                msg_id = int(kind[6:])
        elif kind == "no-bindings":
            pdu["varbinds"] = []
        out = {"msg_id": msg_id, "max_size": m["max_size"], "flags": m["flags"], "sec_model": 3, "usm": {k: v for k, v in m["usm"].items() if not k.startswith("_")},
               "scoped": (m["scoped"]["ctx_engine"], m["scoped"]["ctx_name"], pdu)}
        return ber.enc_v3_message(out)

    w.set_responder(responder)
    w.seam.budget = 10
    case = {"level": level, "bad_discovery": kind}
    res = rig.outcome(lambda: drive(w.client.get(OID(K[0]))))
    R.case(("c12-disco", level, kind), True, sample=case)
    if res[0] == "ok":
        R.violation(case, "discovery reply (%s) was accepted and the request returned %r" % (kind, res[1]), None)
        return
    follow = [r for r in w.agent.requests if not r.get("discovery")]
    if follow:
        R.violation(case, "a request followed the refused discovery reply (%s)" % kind, None)
        return
    R.mon["bad_discovery_refused"] += 1


def gen_history(rng):
    n = rng.randint(3, 30)
    steps = [("op", rng.choice(OPS))]
    for _ in range(n - 1):
        r = rng.random()
        if r < 0.5:
            steps.append(("op", rng.choice(OPS)))
        elif r < 0.84:
            steps.append(("advance", rng.choice(ADV)))
        elif r < 0.88:
            steps.append(("drift", rng.choice((10, 140, 160, 400, 86400))))
        elif r < 0.9:
            steps.append(("failop", rng.choice(("drop-1", "drop-2", "garbage-1", "garbage-2", "drop-3"))))
        elif r < 0.92:
            steps.append(("wallstep", rng.choice((-3600, 3600, -86400 * 400, 86400, -151, 151, 0.5))))
        else:
            steps.append(("reboot", 0))
    if steps[-1][0] != "op":
        steps.append(("op", rng.choice(OPS)))
    return steps


def run(R):
    if not env.VIRTUAL_MONOTONIC:
        R.notes["virtual_monotonic"] = "not installed (run through vf.check)"
    n = N_CASES[R.tier]
    levels = rig.V3_LEVELS
    for i in range(n):
        if not R.mine(i):
            continue
        if not R.time_left():
            break
        rng = R.rng(i)
        level = levels[i % len(levels)]
        steps = gen_history(rng)
        ctx = bytes([0x80]) + bytes(rng.getrandbits(8) for _ in range(8)) if rng.random() < 0.25 else b""
        report_ctx = rng.choice(("", "8000000105aabbccdd", "80001f8804" + b"elsewhere".hex())) if rng.random() < 0.2 else None
        run_history(R, level, steps, ctx, rng.choice((0, 1, 7, 65535)), report_ctx=report_ctx, two_step=rng.random() < 0.2)
    if R.shard == 0:
        for level in levels:
            for kind in ("wrong-msgid", "no-bindings", "msgid=0", "msgid=1", "msgid=-1", "msgid=2147483647", "msgid=2147483646", "msgid=-2147483648",
                         "msgid+4294967296", "msgid-4294967296", "msgid+8589934592", "msgid+2147483648", "msgid-2147483648", "msgid+65536", "msgid+256",
                         "msgid+18446744073709551616", "msgid-negated", "msgid-xor-sign"):
                run_bad_discovery(R, level, kind)
            # the named histories of the design
            run_history(R, level, [("op", "get"), ("advance", 151), ("op", "get")], b"", 1)
            run_history(R, level, [("op", "get"), ("wallstep", -3600), ("op", "get"), ("advance", 10), ("wallstep", 86400), ("op", "set"), ("reboot", 0), ("wallstep", -1000), ("op", "get")], b"", 1)
            run_history(R, level, [("op", "get"), ("advance", 1000), ("drift", 400), ("op", "get"), ("advance", 10), ("op", "set"), ("advance", 200), ("op", "get")], b"", 1)
            run_history(R, level, [("op", "get"), ("drift", 160), ("op", "get"), ("advance", 3600), ("drift", 151), ("op", "walk"), ("op", "get")], b"", 3)
            run_history(R, level, [("op", "get"), ("advance", 151), ("op", "set"), ("reboot", 0), ("op", "get"), ("advance", 400), ("op", "walk")], b"", 5, two_step=True)
            run_history(R, level, [("op", "get"), ("advance", 151), ("op", "set"), ("reboot", 0), ("op", "get")], b"", 1, report_ctx="")
            run_history(R, level, [("op", "get"), ("advance", 151), ("op", "set"), ("reboot", 0), ("op", "get")], b"", 1, report_ctx="8000000105aabbccdd")
            run_history(R, level, [("op", "get"), ("reboot", 0), ("op", "set"), ("op", "get")], b"", 1)
            run_history(R, level, [("op", "get"), ("advance", 149), ("op", "get"), ("advance", 149), ("op", "get"), ("advance", 3 * 86400), ("op", "walk")], b"", 1)
            run_history(R, level, [("op", "set"), ("advance", 3600), ("reboot", 0), ("advance", 100), ("reboot", 0), ("op", "bulkget")], b"", 1)
            # the re-synchronised retry after a reboot is lost (or answered with garbage),
            # the caller shrugs; ordinary calls, ANOTHER reboot, ordinary calls
            for fail in ("drop-2", "garbage-2", "drop-1", "garbage-1"):
                run_history(R, level, [("op", "get"), ("reboot", 0), ("failop", fail), ("op", "get"), ("advance", 20), ("reboot", 0), ("op", "get"), ("op", "set"), ("advance", 200), ("op", "get")], b"", 1)
                run_history(R, level, [("failop", fail), ("op", "get"), ("reboot", 0), ("op", "get")], b"", 1)
                R.mon["histories_with_a_failed_resynchronisation"] += 1
        # a long-lived client polling faster than once a second: fractions of a second
        # must not get lost (500 requests 0.4 s apart = 200 s, no reboot, so the agent
        # must never see a request outside its window)
        for level in (levels[1], levels[-1]):
            steps = []
            for _ in range(500):
                steps += [("op", "get"), ("advance", 0.4)]
            run_history(R, level, steps, b"", 1)
            R.mon["subsecond_polling_histories"] += 1


def replay(R, v):
    c = v["case"]
    if "bad_discovery" in c:
        run_bad_discovery(R, c["level"], c["bad_discovery"])
        return
    run_history(R, c["level"], [tuple(s) for s in c["steps"]], bytes.fromhex(c["ctx_engine"][4:]), c["boots0"], report_ctx=c.get("report_ctx"), two_step=c.get("two_step", False))
