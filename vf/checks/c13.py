"""
C13 - UDP sender: identical request sent at most `retries` times, `timeout`
seconds apart, first reply returned unmodified as soon as it arrives, Timeout
after exactly `retries` unanswered attempts, and no socket left open once the
call has returned or raised and control is back in the event loop.

(a) virtual time, exhaustive: send_udp runs on vf.vloop.VLoop with recording
    fake datagram endpoints; every sequence of per-attempt outcomes is
    enumerated.
(b) real loopback sockets: scripted UDP peer, closed ports (real ICMP),
    /proc/self/fd accounting, ResourceWarnings.
"""

import asyncio
import gc
import itertools
import os
import socket
import warnings

from .. import rig  # noqa: F401
from .. import core, env
from ..vloop import Deadlock, VLoop
from puresnmp.exc import Timeout
from puresnmp.transport import Endpoint, send_udp
import ipaddress

PROP = "C13"
LEVEL = "fault_enumeration"
HERMETIC = False  # part (b) opens real loopback sockets on purpose
SHARDS = {"quick": 4, "thorough": 8}
TIME_CAP = {"quick": 50, "thorough": 600}
WATCHDOG = {"quick": 600, "thorough": 3600}
RULE = (
    "(a) virtual time: ALL sequences of per-attempt outcomes {reply in time, no reply, reply "
    "after the timeout, two replies, ICMP error via error_received, connection lost} up to "
    "the retry budget for retries 1..4 (thorough 1..5) x timeouts {0.5, 1, 3} (thorough also 7.25), plus cancellation "
    "of the caller during each attempt, and histories of 1..130 calls whose socket creation "
    "fails followed by a normal exchange; oracle over the recorded transport events: sends <= "
    "retries, identical payload, unanswered attempts exactly `timeout` virtual seconds apart, "
    "first reply returned unmodified at its arrival time, Timeout at exactly retries*timeout, "
    "ICMP/connection-loss either propagates or is retried, every transport closed or aborted "
    "once the loop is quiescent. (b) real loopback: scripted peer (reply / silence / reply on "
    "attempt k / two replies) and closed ports (real ICMP); verdicts on counts only: datagrams "
    "the peer received, /proc/self/fd delta after the call, ResourceWarnings. Distinct by "
    "(retries, timeout, outcome sequence)."
    " Also: timeouts 0 / 0.001 / 3600 / 10^6+0.5, replies of 0..65527 octets (65507 on the re"
    "al socket too), and every spelling of the call (keywords, the documented positional orde"
    "r, loop=None, no loop)."
    " Thirteen BER-like reply contents (valid message, trailing octets, truncated, odd length"
    " forms) must come back unmodified; outcome \"closed\" = the attempt's transport goes away "
    "without an error (retried or reported, never CancelledError)."
    " Outcome \"jump\": no reply and the wall clock stepped forward by an hour during the attem"
    "pt. Real sockets: a foreign task blocks the loop for 1.3 s during an unanswered attempt "
    "(at most `retries` datagrams reach the peer)."
    " Histories of up to 2100 failed socket creations before a normal exchange."
)
ASSUMPTIONS = [
    "the fake transport follows asyncio's selector datagram transport closing semantics (no delivery after close/abort, connection_lost via call_soon)",
    "on ICMP / connection loss the sender may propagate the OS error or retry; both are accepted, a leaked transport is not",
    "part (b) uses 3x timing margins; a timing-ambiguous real-socket case is replayed once and otherwise marked inconclusive, never a violation",
]
REQUIRED_MONITORS = ("virtual_sequences_run", "timeouts_exact", "replies_returned_unmodified", "transports_closed_checked", "real_socket_cases")

KINDS = ("reply", "none", "late", "two", "icmp", "lost")
REQUEST = bytes.fromhex("302902010104067075626c6963a01c02046553f100020100020100300e300c06082b060102010101000500")
EP = Endpoint(ipaddress.ip_address("192.0.2.1"), 161)


REPLY_SIZE = [None]


REPLY_OVERRIDE = [None]
_MSG = bytes.fromhex("302902010104067075626c6963a21c02046553f100020100020100300e300c06082b060102010101000500")
# replies whose CONTENT looks like (damaged, padded, oddly encoded) SNMP: the transport
# hands over whatever arrived, judging it is not its business
BERLIKE = (
    _MSG,
    _MSG + b"\x00",
    _MSG + b"\x00\x00\x00\x00padding",
    _MSG[:-1],
    _MSG[:10],
    b"\x30",
    b"\x30\x00",
    b"\x30\x81\x29" + _MSG[2:],
    b"\x30\x84\x00\x00\x00\x29" + _MSG[2:],
    b"\x30\x80" + _MSG[2:] + b"\x00\x00",
    b"\x30\x7f" + _MSG[2:],
    b"\x30\x05" + _MSG[2:],
    _MSG + _MSG,
)


def reply_bytes(i):
    if REPLY_OVERRIDE[0] is not None:
        return REPLY_OVERRIDE[0]
    if REPLY_SIZE[0] is not None:
        n = REPLY_SIZE[0]
        return (b"\x00 size-%d-%d " % (n, i) + bytes(range(256)) * (n // 256 + 1))[:n]
    # leading/trailing whitespace and NULs: "unmodified" means byte for byte; odd
    # attempts answer with a LONG datagram (a few kB), even ones with a short one
    body = bytes(range(200, 232)) * (90 if i % 2 else 1)
    return b" \n\x00reply-%d-" % i + body + b"\x00 \t\r\n"


def make_script_factory(seq, timeout):
    def factory(index):
        outcome = seq[index] if index < len(seq) else "none"

        def script(transport, data):
            loop = transport.loop
            addr = ("192.0.2.1", 161)
            if outcome == "reply":
                loop.call_later(timeout * 0.4, transport.deliver, reply_bytes(index), addr)
            elif outcome == "late":
                loop.call_later(timeout * 1.5, transport.deliver, reply_bytes(index), addr)
            elif outcome == "two":
                loop.call_later(timeout * 0.25, transport.deliver, reply_bytes(index), addr)
                loop.call_later(timeout * 0.5, transport.deliver, b"second-" + reply_bytes(index), addr)
            elif outcome == "icmp":
                loop.call_later(timeout * 0.3, transport.icmp, ConnectionRefusedError(111, "Connection refused"))
            elif outcome == "lost":
                loop.call_later(timeout * 0.3, transport.fatal, OSError(5, "socket went away"))
            elif outcome == "closed":
                loop.call_later(timeout * 0.3, transport.closed_externally)
            elif outcome == "jump":
                # no reply, and the host's WALL clock is stepped forward by an hour while
                # the attempt is outstanding (no time passes for the event loop)
                def step():
                    env.CLOCK.wall_offset += 3600.0

                loop.call_later(timeout * 0.5, step)

        return script

    return factory


CALL_STYLE = ["kw"]


def call_send_udp(loop, timeout, retries):
    """The ways a caller may spell the call (the documented TSender order is
    endpoint, packet, timeout, loop, retries)."""
    st = CALL_STYLE[0]
    if st == "kw":
        return send_udp(EP, REQUEST, timeout=timeout, loop=loop, retries=retries)
    if st == "positional":
        return send_udp(EP, REQUEST, timeout, loop, retries)
    if st == "positional-loop-none":
        return send_udp(EP, REQUEST, timeout, None, retries)
    if st == "kw-no-loop":
        return send_udp(endpoint=EP, packet=REQUEST, retries=retries, timeout=timeout)
    raise ValueError(st)


def run_virtual(seq, retries, timeout, cancel_at=None):
    """Returns (outcome, value, t_done, loop) - loop is closed."""
    loop = VLoop(make_script_factory(seq, timeout))
    hygiene = []
    loop.set_exception_handler(lambda l, ctx: hygiene.append(str(ctx.get("message"))))
    t0 = loop.time()
    result = {}

    async def main():
        task = asyncio.ensure_future(call_send_udp(loop, timeout, retries))
        if cancel_at is not None:
            loop.call_later(cancel_at, task.cancel)
        try:
            val = await task
            result["r"] = ("ok", val, loop.time())
        except asyncio.CancelledError:
            result["r"] = ("cancelled", None, loop.time())
        except Exception as exc:  # noqa: BLE001
            result["r"] = ("exc", exc, loop.time())
        # back in the event loop: let everything scheduled run (late replies, connection_lost)
        await asyncio.sleep(timeout * 4)

    try:
        loop.run_until_complete(main())
    except Deadlock:
        result["r"] = ("deadlock", None, loop.time())
    finally:
        log, transports = loop.log, loop.transports
        try:
            loop.close()
        except Exception:  # noqa: BLE001
            pass
    gc.collect()
    return result.get("r", ("deadlock", None, None)), t0, log, transports, hygiene


def run_after_create_failures(n_fail):
    """n_fail send_udp calls that fail at socket creation, then one call that is answered on attempt 2."""
    seq = ("none", "reply")
    state = {"base": 0}

    def factory(index):
        return make_script_factory(seq, 1)(index - state["base"])

    loop = VLoop(factory)
    result = {}

    async def main():
        for _ in range(n_fail):
            loop.create_failures = 1
            try:
                await send_udp(EP, REQUEST, timeout=1, loop=loop, retries=2)
            except OSError:
                pass
        loop.create_failures = 0
        state["base"] = len(loop.transports)
        try:
            val = await send_udp(EP, REQUEST, timeout=1, loop=loop, retries=2)
            result["r"] = ("ok", val) if val == reply_bytes(1) else ("wrong-reply", val)
        except Exception as exc:  # noqa: BLE001
            result["r"] = ("exc", exc)

    try:
        loop.run_until_complete(main())
    except Deadlock:
        result["r"] = ("deadlock", "the call never completes: event loop would block forever")
    finally:
        try:
            loop.close()
        except Exception:  # noqa: BLE001
            pass
    return result.get("r", ("deadlock", None))


def judge_virtual(R, case, seq, retries, timeout, res, t0, log, transports):
    kind, val, t_done = res
    sends = [e for e in log if e["ev"] == "send"]
    eps = 1e-9
    if kind == "deadlock":
        R.violation(case, "the call never completes (event loop would block forever)", None)
        return
    if len(sends) > retries:
        R.violation(case, "%d datagrams sent, retries=%d" % (len(sends), retries), None)
        return
    if any(e["data"] != REQUEST for e in sends):
        R.violation(case, "a retransmission differs from the request", None)
        return
    if any(e["ev"] == "send-after-close" for e in log):
        R.violation(case, "sendto on a closed transport", None)
        return
    t = t0
    i = 0
    ended = False
    while i < retries:
        if i >= len(sends):
            R.violation(case, "attempt %d was never sent (outcomes so far %r), call ended with %s %r" % (i + 1, seq[:i], kind, val), None)
            return
        if abs(sends[i]["t"] - t) > eps:
            R.violation(case, "attempt %d sent at t=%.6f, expected t=%.6f (timeout %s)" % (i + 1, sends[i]["t"] - t0, t - t0, timeout), None)
            return
        o = seq[i] if i < len(seq) else "none"
        if o in ("reply", "two"):
            want_t = t + timeout * (0.4 if o == "reply" else 0.25)
            if kind != "ok" or val != reply_bytes(i):
                R.violation(case, "attempt %d was answered with %r, the call gave %s %r" % (i + 1, reply_bytes(i)[:12], kind, val), None)
                return
            if abs(t_done - want_t) > eps:
                R.violation(case, "reply arrived at t=%.6f but the call returned at t=%.6f" % (want_t - t0, t_done - t0), None)
                return
            R.mon["replies_returned_unmodified"] += 1
            ended = True
            break
        if o in ("none", "late", "jump"):
            t += timeout
            i += 1
            continue
        # icmp / lost at 0.3*timeout: propagate or retry
        t_err = t + timeout * 0.3
        if len(sends) > i + 1:
            nxt = sends[i + 1]["t"]
            if nxt < t_err - eps or nxt > t + timeout + eps:
                R.violation(case, "retry after %s at t=%.6f, error was at %.6f" % (o, nxt - t0, t_err - t0), None)
                return
            R.mon["os_error_retried"] += 1
            t = nxt
            i += 1
            continue
        if kind == "exc" and not isinstance(val, Timeout) and abs(t_done - t_err) <= eps:
            R.mon["os_error_propagated"] += 1
            ended = True
            break
        if kind == "exc" and isinstance(val, Timeout) and i == retries - 1 and abs(t_done - (t + timeout)) <= eps:
            R.mon["os_error_counted_as_timeout"] += 1
            ended = True
            break
        R.violation(case, "after %s on attempt %d the call ended with %s %r at t=%.6f" % (o, i + 1, kind, val, (t_done or 0) - t0), None)
        return
    if not ended:
        if kind != "exc" or not isinstance(val, Timeout):
            R.violation(case, "%d unanswered attempts, expected Timeout, got %s %r" % (retries, kind, val), None)
            return
        if len(sends) != retries:
            R.violation(case, "Timeout after %d sends, retries=%d" % (len(sends), retries), None)
            return
        if abs(t_done - t) > eps:
            R.violation(case, "Timeout raised at t=%.6f, expected exactly t=%.6f" % (t_done - t0, t - t0), None)
            return
        R.mon["timeouts_exact"] += 1
    check_closed(R, case, transports, seq)


def check_closed(R, case, transports, seq):
    R.mon["transports_closed_checked"] += len(transports)
    open_ = [tr.index for tr in transports if not tr.closing]
    if open_:
        last = seq[open_[-1]] if open_[-1] < len(seq) else "none"
        mech = "icmp-leaks-socket" if all((seq[i] if i < len(seq) else "none") == "icmp" for i in open_) else None
        R.violation(case, "transports %r still open after the call ended and the loop went quiet (outcome of that attempt: %s)" % (open_, last), mech)
        return False
    return True


def virtual_part(R):
    complete = enumerate_outcomes(R, small_blocks(R))
    return complete


def enumerate_outcomes(R, k):
    max_r = 4 if R.tier == "quick" else 5
    for retries in range(1, max_r + 1):
        for timeout in ((0.5, 1, 3) if R.tier == "quick" or retries == 5 else (0.5, 1, 3, 7.25)):
            for seq in itertools.product(KINDS, repeat=retries):
                k += 1
                if not R.mine(k):
                    continue
                if not R.time_left():
                    return False
                case = {"part": "virtual", "seq": list(seq), "retries": retries, "timeout": timeout}
                res, t0, log, transports, hygiene = run_virtual(seq, retries, timeout)
                R.case(("c13a", retries, timeout, seq), True, sample={**case, "outcome": res[0] if res[0] != "exc" else repr(res[1]), "events": [(e["ev"], e["transport"], round(e["t"] - t0, 3)) for e in log]} if k % 397 == 1 else None)
                R.mon["virtual_sequences_run"] += 1
                R.mon["hygiene_events"] += len(hygiene)
                judge_virtual(R, case, seq, retries, timeout, res, t0, log, transports)
    return True


def small_blocks(R):
    """The deterministic blocks; they run BEFORE the exhaustive enumeration so that a time
    cap never starves them.  Returns the case counter."""
    k = 0
    # other spellings of the call
    for style in ("positional", "positional-loop-none", "kw-no-loop"):
        for retries, seq in ((1, ("reply",)), (2, ("none", "reply")), (3, ("none", "none", "none")), (2, ("icmp", "reply")), (3, ("late", "two", "none"))):
            k += 1
            if not R.mine(k):
                continue
            case = {"part": "virtual", "seq": list(seq), "retries": retries, "timeout": 1, "style": style}
            CALL_STYLE[0] = style
            try:
                res, t0, log, transports, hygiene = run_virtual(seq, retries, 1)
            finally:
                CALL_STYLE[0] = "kw"
            R.case(("c13a-style", style, seq), True)
            R.mon["virtual_sequences_run"] += 1
            R.mon["call_styles_run"] += 1
            judge_virtual(R, case, seq, retries, 1, res, t0, log, transports)
    # extreme timeouts: 0 (every attempt gives up at once), tiny, an hour, days
    for timeout in (0, 0.001, 3600, 10**6 + 0.5):
        for retries in (1, 2, 3):
            seqs = [("none",) * retries]
            if timeout:
                seqs += [("none",) * (retries - 1) + ("reply",), ("late",) * retries, ("icmp",) + ("none",) * (retries - 1)]
            for seq in seqs:
                k += 1
                if not R.mine(k):
                    continue
                case = {"part": "virtual", "seq": list(seq), "retries": retries, "timeout": timeout}
                res, t0, log, transports, hygiene = run_virtual(seq, retries, timeout)
                R.case(("c13a", retries, timeout, seq), True)
                R.mon["virtual_sequences_run"] += 1
                R.mon["extreme_timeouts_run"] += 1
                judge_virtual(R, case, seq, retries, timeout, res, t0, log, transports)
    # reply sizes up to the largest datagram UDP can carry (IPv4: 65507, IPv6: 65527)
    for size in (0, 1, 1472, 1473, 4096, 65506, 65507, 65508, 65527):
        for seq in (("reply",), ("none", "reply"), ("two",)):
            k += 1
            if not R.mine(k):
                continue
            case = {"part": "virtual", "seq": list(seq), "retries": len(seq), "timeout": 1, "reply_size": size}
            REPLY_SIZE[0] = size
            try:
                res, t0, log, transports, hygiene = run_virtual(seq, len(seq), 1)
                R.case(("c13a-size", size, seq), True)
                R.mon["virtual_sequences_run"] += 1
                R.mon["reply_sizes_run"] += 1
                judge_virtual(R, case, seq, len(seq), 1, res, t0, log, transports)
            finally:
                REPLY_SIZE[0] = None
    # the transport of an attempt goes away without an error while the reply is awaited:
    # an unanswered attempt like any other (retried or reported, never a CancelledError)
    for retries in (1, 2, 3):
        for seq in itertools.product(("closed", "none", "reply"), repeat=retries):
            if "closed" not in seq:
                continue
            k += 1
            if not R.mine(k):
                continue
            case = {"part": "virtual", "seq": list(seq), "retries": retries, "timeout": 1}
            res, t0, log, transports, hygiene = run_virtual(seq, retries, 1)
            R.case(("c13a", retries, 1, seq), True)
            R.mon["virtual_sequences_run"] += 1
            R.mon["closed_without_error_run"] += 1
            judge_virtual(R, case, seq, retries, 1, res, t0, log, transports)
    # the wall clock jumps while a request is outstanding
    for retries in (2, 3):
        for seq in (("jump",) + ("reply",), ("jump", "none", "reply"), ("jump",) * retries, ("none", "jump", "reply")):
            if len(seq) > retries:
                continue
            k += 1
            if not R.mine(k):
                continue
            case = {"part": "virtual", "seq": list(seq), "retries": retries, "timeout": 1}
            env.CLOCK.wall_offset = 0.0
            try:
                res, t0, log, transports, hygiene = run_virtual(seq, retries, 1)
            finally:
                env.CLOCK.wall_offset = 0.0
            R.case(("c13a", retries, 1, seq), True)
            R.mon["virtual_sequences_run"] += 1
            R.mon["wall_clock_jumps_run"] += 1
            judge_virtual(R, case, seq, retries, 1, res, t0, log, transports)
    for j, content in enumerate(BERLIKE):
        for seq in (("reply",), ("none", "reply"), ("two",)):
            k += 1
            if not R.mine(k):
                continue
            case = {"part": "virtual", "seq": list(seq), "retries": len(seq), "timeout": 1, "berlike": j}
            REPLY_OVERRIDE[0] = content
            try:
                res, t0, log, transports, hygiene = run_virtual(seq, len(seq), 1)
                R.case(("c13a-berlike", j, seq), True)
                R.mon["virtual_sequences_run"] += 1
                R.mon["ber_like_replies_run"] += 1
                judge_virtual(R, case, seq, len(seq), 1, res, t0, log, transports)
            finally:
                REPLY_OVERRIDE[0] = None
    # history: N calls whose socket cannot even be created (OS error), then a normal
    # exchange in the same process / on the same loop must still work
    for n_fail in (1, 5, 63, 64, 70, 130, 255, 256, 513, 800, 801, 1030, 2100):
        k += 1
        if not R.mine(k):
            continue
        case = {"part": "virtual-create-failures", "n_fail": n_fail, "retries": 2, "timeout": 1, "seq": ["none", "reply"]}
        res = run_after_create_failures(n_fail)
        R.case(("c13a-create-fail", n_fail), True, sample={**case, "outcome": res[0]} if n_fail == 5 else None)
        R.mon["create_failure_histories"] += 1
        if res[0] != "ok":
            R.violation(case, "after %d calls whose socket creation failed, a normal exchange gave %r" % (n_fail, res[:2]), None)
    # cancellation of the caller during attempt j: nothing may stay open
    for retries in (1, 2, 3):
        for timeout in (1,):
            for j in range(retries):
                for seq in (("none",) * retries, ("late",) * retries):
                    k += 1
                    if not R.mine(k):
                        continue
                    cancel_at = j * timeout + timeout * 0.5
                    case = {"part": "virtual-cancel", "seq": list(seq), "retries": retries, "timeout": timeout, "cancel_at": cancel_at}
                    res, t0, log, transports, hygiene = run_virtual(seq, retries, timeout, cancel_at=cancel_at)
                    R.case(("c13a-cancel", retries, j, seq), True)
                    R.mon["cancellations_run"] += 1
                    if res[0] != "cancelled":
                        R.violation(case, "caller cancelled at t=%.2f, call ended with %r" % (cancel_at, res[:2]), None)
                        continue
                    check_closed(R, case, transports, seq)
    return k


# ---------------------------------------------------------------------------
# (b) real loopback sockets
# ---------------------------------------------------------------------------


def fd_set():
    out = {}
    for name in os.listdir("/proc/self/fd"):
        try:
            out[int(name)] = os.readlink("/proc/self/fd/" + name)
        except OSError:
            pass
    return out


def real_reply(what, i):
    if what == "bigreply":
        # the largest datagram UDP over IPv4 carries
        return (b" real-reply-%d\n" % i + bytes(range(256)) * 256)[:65507]
    return b" real-reply-%d\n" % i


class Peer(asyncio.DatagramProtocol):
    """Scripted UDP peer: behaviour per received datagram index."""

    def __init__(self, plan):
        self.plan = plan
        self.received = []
        self.transport = None

    def connection_made(self, transport):
        self.transport = transport

    def datagram_received(self, data, addr):
        i = len(self.received)
        self.received.append(bytes(data))
        what = self.plan[i] if i < len(self.plan) else "silent"
        if what == "reply":
            self.transport.sendto(b" real-reply-%d\n" % i, addr)
        elif what == "bigreply":
            self.transport.sendto(real_reply(what, i), addr)
        elif what == "two":
            self.transport.sendto(b" real-reply-%d\n" % i, addr)
            self.transport.sendto(b"real-second-%d" % i, addr)


BLOCK = [0.0]  # seconds for which a foreign task blocks the loop during the first attempt


async def real_case(plan, retries, timeout, closed_port):
    loop = asyncio.get_running_loop()
    peer = None
    ptransport = None
    if closed_port:
        s = socket.socket(socket.AF_INET, socket.SOCK_DGRAM)
        s.bind(("127.0.0.1", 0))
        port = s.getsockname()[1]
        s.close()
    else:
        ptransport, peer = await loop.create_datagram_endpoint(lambda: Peer(plan), local_addr=("127.0.0.1", 0))
        port = ptransport.get_extra_info("sockname")[1]
    before = fd_set()
    if BLOCK[0]:
        # another task of the application hogs the event loop (in REAL time) while an
        # attempt is unanswered: timers fire late, the number of transmissions stays bounded
        import time as _time

        loop.call_later(0.05, _time.sleep, BLOCK[0])
    try:
        val = await send_udp(Endpoint(ipaddress.ip_address("127.0.0.1"), port), REQUEST, timeout=timeout, retries=retries)
        res = ("ok", val)
    except Exception as exc:  # noqa: BLE001
        res = ("exc", exc)
    # control is back in the event loop
    for _ in range(5):
        await asyncio.sleep(0)
    await asyncio.sleep(0.02)
    after = fd_set()
    leaked = {fd: tgt for fd, tgt in after.items() if fd not in before and tgt.startswith("socket:")}
    received = list(peer.received) if peer else []
    if ptransport:
        ptransport.close()
        await asyncio.sleep(0)
    return res, leaked, received


def run_real(plan, retries, timeout, closed_port):
    with warnings.catch_warnings(record=True) as caught:
        warnings.simplefilter("always")
        loop = asyncio.new_event_loop()
        try:
            out = loop.run_until_complete(real_case(plan, retries, timeout, closed_port))
        finally:
            loop.run_until_complete(loop.shutdown_asyncgens())
            loop.close()
        gc.collect()
    rw = [str(w.message) for w in caught if issubclass(w.category, ResourceWarning) and "socket" in str(w.message).lower() or "transport" in str(w.message).lower()]
    return out + (rw,)


def judge_real(R, case, plan, retries, closed_port, res, leaked, received, rw):
    if leaked:
        mech = "icmp-leaks-socket" if closed_port else None
        R.violation(case, "file descriptors left open after the call: %r" % leaked, mech)
        return "violation"
    if rw:
        R.violation(case, "ResourceWarning: %s" % rw[0], "icmp-leaks-socket" if closed_port else None)
        return "violation"
    if closed_port:
        if res[0] == "ok":
            return "ambiguous"
        R.mon["real_icmp_cases"] += 1
        return "ok"
    if len(received) > retries or any(d != REQUEST for d in received):
        R.violation(case, "peer received %d datagrams (retries=%d) / altered payload" % (len(received), retries), None)
        return "violation"
    first = next((i for i, w in enumerate(plan[:retries]) if w in ("reply", "two", "bigreply")), None)
    if first is None:
        if res[0] != "exc" or not isinstance(res[1], Timeout):
            return "ambiguous"
        if len(received) != retries:
            return "ambiguous"
    else:
        want = real_reply(plan[first], first)
        if res[0] == "ok" and res[1] != want and res[1].strip() == want.strip():
            R.violation(case, "reply returned modified: %r" % (res[1][:40],), None)
            return "violation"
        if res[0] != "ok" or res[1] != want:
            return "ambiguous"
        if len(received) != first + 1:
            return "ambiguous"
        if plan[first] == "bigreply":
            R.mon["real_65507_octet_replies"] += 1
    return "ok"


def real_part(R):
    plans = []
    for retries in (1, 2, 3):
        plans.append((("reply",), retries, False))
        plans.append((("two",), retries, False))
        if retries < 3:
            plans.append((("bigreply",), retries, False))
        plans.append((("silent",) * retries, retries, False))
        if retries > 1:
            plans.append((("silent",) * (retries - 1) + ("reply",), retries, False))
        plans.append(((), retries, True))
    reps = 2 if R.tier == "quick" else 10
    k = 0
    for rep in range(reps):
        for plan, retries, closed in plans:
            k += 1
            if not R.mine(k):
                continue
            case = {"part": "real", "plan": list(plan), "retries": retries, "closed_port": closed, "timeout": 0.06}
            verdict = None
            for attempt, tmo in enumerate((0.06, 0.3, 1.5)):  # replay (with more generous timing) before verdict
                res, leaked, received, rw = run_real(plan, retries, tmo, closed)
                verdict = judge_real(R, case, plan, retries, closed, res, leaked, received, rw)
                if verdict != "ambiguous":
                    break
            R.case(("c13b", plan, retries, closed), True, sample={**case, "outcome": res[0] if res[0] != "exc" else repr(res[1]), "peer_received": len(received)} if rep == 0 and retries == 2 else None)
            R.mon["real_socket_cases"] += 1
            if verdict == "ambiguous":
                R.mon["real_timing_ambiguous"] += 1
                R.inconclusive("real-socket case %r stayed timing-ambiguous after a replay: %r" % (case, res))


def blocked_loop_part(R):
    k = 0
    for retries in (2, 3):
        for block in (1.3,):
            k += 1
            if not R.mine(k):
                continue
            plan = ("silent",) * retries
            case = {"part": "real", "plan": list(plan), "retries": retries, "closed_port": False, "timeout": 0.3, "block": block}
            BLOCK[0] = block
            try:
                res, leaked, received, rw = run_real(plan, retries, 0.3, False)
            finally:
                BLOCK[0] = 0.0
            R.case(("c13b-blocked", retries, block), True)
            R.mon["real_socket_cases"] += 1
            R.mon["blocked_loop_cases"] += 1
            verdict = judge_real(R, case, plan, retries, False, res, leaked, received, rw)
            if verdict == "ambiguous":
                R.mon["real_timing_ambiguous"] += 1


def run(R):
    core.install_socket_audit()
    complete = virtual_part(R)
    R.exhaustive = bool(complete)
    real_part(R)
    blocked_loop_part(R)


def replay(R, v):
    c = v["case"]
    if c["part"] == "virtual-create-failures":
        res = run_after_create_failures(c["n_fail"])
        if res[0] != "ok":
            R.violation(c, "after %d failing socket creations a normal exchange gave %r" % (c["n_fail"], res[:2]), None)
        R.evaluations += 1
        return
    if c["part"] == "real":
        BLOCK[0] = c.get("block", 0.0)
        res, leaked, received, rw = run_real(tuple(c["plan"]), c["retries"], c["timeout"], c["closed_port"])
        judge_real(R, c, tuple(c["plan"]), c["retries"], c["closed_port"], res, leaked, received, rw)
    else:
        seq = tuple(c["seq"])
        REPLY_SIZE[0] = c.get("reply_size")
        CALL_STYLE[0] = c.get("style", "kw")
        REPLY_OVERRIDE[0] = BERLIKE[c["berlike"]] if c.get("berlike") is not None else None
        try:
            res, t0, log, transports, hygiene = run_virtual(seq, c["retries"], c["timeout"], cancel_at=c.get("cancel_at"))
        finally:
            pass
        if c["part"] == "virtual-cancel":
            check_closed(R, c, transports, seq)
        else:
            judge_virtual(R, c, seq, c["retries"], c["timeout"], res, t0, log, transports)
    R.evaluations += 1
