"""
C14 - concurrent operations on a shared client (or on several clients on one
event loop) each obtain exactly the result they would have obtained running
alone, under every interleaving of their network exchanges.

asyncio is cooperative: the only suspension points of an operation are its
sender calls.  The recording sender parks every request; a scheduler answers
the pending requests in a chosen order, which covers exactly the
interleavings the program can have (no artificial yields).  Orders are
enumerated systematically (depth-first over schedule prefixes, re-executing
from scratch) for small sets and sampled beyond.
"""

import asyncio
import contextvars
import gc
import random
import warnings

from .. import rig  # noqa: F401
from .. import agent as agent_mod
from .. import ber
from ..rig import OID, World
from puresnmp import V3, Auth, Client, Priv
from puresnmp.exc import SnmpError

PROP = "C14"
LEVEL = "exploration"
SHARDS = {"quick": 8, "thorough": 16}
TIME_CAP = {"quick": 55, "thorough": 900}
MAX_ENUM = {"quick": 400, "thorough": 3000}
N_SETS = {"quick": 60, "thorough": 1200}
RULE = (
    "Sets of 2..6 operations {get, multiget, getnext, set to a private OID, walk, bulkwalk, "
    "table} started concurrently as tasks on one event loop, on one shared client (v2c; v3 "
    "authPriv primed; v3 authPriv FRESH, i.e. concurrent first use; v3 primed with the device "
    "REBOOTING while requests are in flight) or on two clients (different v3 users on one "
    "device; the same user on two devices with different engine ids); one operation cancelled "
    "by its caller at a chosen point while the others are in flight; a slow GET left "
    "unanswered while a 170-request walk goes by. Every request is parked at the sender seam and a scheduler answers "
    "pending requests in a chosen order: all orders are enumerated depth-first for sets whose "
    "schedule tree has <= MAX_ENUM leaves (quick 400, thorough 3000), otherwise sampled "
    "uniformly at each decision. Oracle: each operation's result == its solo result on an "
    "identical agent; two clock modes: every read advances (distinct request ids) and frozen "
    "(all operations start within the same second and share one request id, as in real "
    "use); every request carries its own client's user; agent verdict counters "
    "clean (repeated discovery allowed); no 'never awaited' / 'exception never retrieved' "
    "events. Distinct = distinct (operation set, answer order) pairs observed."
    " Third clock mode \"ticking\" (some operations share an id, others do not); operation kind"
    "s bulkget / multiwalk2 whose argument lists are shared by all operations of an execution"
    "; the small deterministic blocks (slow get during a long walk, ticking sets, cancellatio"
    "ns) run before the enumeration, which may use at most 60% of the time cap."
    " Mode v3-fresh-two-step: first use of a client against an agent with two-step discovery."
    " The long walk that goes by a parked request has 170 requests."
    ' Operations that END IN AN ERROR take part: strict and lenient walks over a stretch wher'
    'e the device stops advancing, refused SETs; each ends as it ends alone and the exception'
    ' objects of one execution are pairwise distinct.'
)
ASSUMPTIONS = [
    "operations in one set commute (sets go to private OIDs nobody else reads)",
    "suspension points of an operation are exactly its sender calls (checked: an operation that blocks on anything else makes the run inconclusive)",
]
REQUIRED_MONITORS = ("interleavings_run", "ops_equal_to_solo", "sets_fully_enumerated")

OPVAR = contextvars.ContextVar("vf_op", default=None)
BASE = (1, 3, 6, 1, 2, 1)
DB = {}
for _c in (1, 2):
    for _r in (1, 2, 3):
        DB[BASE + (7, 1, _c, _r)] = ("int", 10 * _c + _r)
DB[BASE + (1, 1, 0)] = ("str", b"descr")
DB[BASE + (1, 5, 0)] = ("str", b"name")
DB[BASE + (9, 1, 0)] = ("int", 1)
DB[BASE + (9, 2, 0)] = ("int", 2)
for _i in range(6):
    DB[BASE + (99, _i, 0)] = ("int", 0)  # private slots for SETs
for _i in range(1, 171):
    DB[BASE + (55, 1, _i)] = ("int", _i)  # a long column: 170 instances

# a stretch where the device does not advance (GETNEXT of STUCK answers STUCK again), and
# an object it refuses to write: operations that END IN AN ERROR are operations, too
DB[BASE + (66, 1, 1)] = ("int", 1)
DB[BASE + (66, 1, 2)] = ("int", 2)
DB[BASE + (66, 1, 3)] = ("int", 3)
STUCK = BASE + (66, 1, 2)
READONLY = BASE + (98, 0)
DB[READONLY] = ("int", 7)
EXC_OBJECTS = []  # (operation id, exception object) of this execution


def device_quirks(req, resp):
    if req["type"] == ber.PDU_GETNEXT and [tuple(o) for o, _ in req["varbinds"]] == [STUCK]:
        return dict(resp, varbinds=[(STUCK, ("int", 2))])
    if req["type"] == ber.PDU_SET and any(tuple(o) == READONLY for o, _ in req["varbinds"]):
        return dict(resp, error_status=17, error_index=1, varbinds=list(req["varbinds"]))
    return resp


def _raised(exc):
    EXC_OBJECTS.append((OPVAR.get(), exc))
    return ("raised", type(exc).__name__, getattr(exc, "error_status", None), str(getattr(exc, "offending_oid", "")))


OPKINDS = ("get", "multiget", "getnext", "set", "walk", "bulkwalk", "table", "walk9", "bulkget", "multiwalk2", "stuckwalk-strict", "stuckwalk-warn", "set-refused")

# argument lists that belong to the caller and are passed to SEVERAL concurrent
# operations of one execution (a poller keeps its OID lists); rebuilt per execution
SHARED = {}


def shared_lists():
    if not SHARED:
        SHARED["scalars"] = [OID(BASE + (1, 1, 0))]
        SHARED["repeaters"] = [OID(BASE + (7, 1, 1))]
        SHARED["roots"] = [OID(BASE + (7, 1, 2)), OID(BASE + (9,))]
    return SHARED



async def do_op(client, kind, slot):
    if kind == "get":
        return rig.to_tuple(await client.get(OID(BASE + (1, 1, 0))))
    if kind == "multiget":
        return [rig.to_tuple(v) for v in await client.multiget([OID(BASE + (1, 5, 0)), OID(BASE + (9, 1, 0))])]
    if kind == "getnext":
        vb = await client.getnext(OID(BASE + (9, 1, 0)))
        return (rig.oid_t(vb.oid), rig.to_tuple(vb.value))
    if kind == "set":
        return rig.to_tuple(await client.set(OID(BASE + (99, slot, 0)), rig.from_tuple(("int", 500 + slot))))
    if kind == "walk":
        return [(rig.oid_t(vb.oid), rig.to_tuple(vb.value)) async for vb in client.walk(OID(BASE + (7, 1, 1)))]
    if kind == "walk9":
        return [(rig.oid_t(vb.oid), rig.to_tuple(vb.value)) async for vb in client.walk(OID(BASE + (9,)))]
    if kind == "longwalk":
        return [(rig.oid_t(vb.oid), rig.to_tuple(vb.value)) async for vb in client.walk(OID(BASE + (55,)))]
    if kind == "bulkwalk":
        return [(rig.oid_t(vb.oid), rig.to_tuple(vb.value)) async for vb in client.bulkwalk([OID(BASE + (7,))], bulk_size=4)]
    if kind == "bulkget":
        sh = shared_lists()
        r = await client.bulkget(sh["scalars"], sh["repeaters"], max_list_size=3)
        return ([(rig.oid_t(k), rig.to_tuple(v)) for k, v in r.scalars.items()], [(rig.oid_t(k), rig.to_tuple(v)) for k, v in r.listing.items()])
    if kind == "multiwalk2":
        return [(rig.oid_t(vb.oid), rig.to_tuple(vb.value)) async for vb in client.multiwalk(shared_lists()["roots"])]
    if kind in ("stuckwalk-strict", "stuckwalk-warn"):
        rows = []
        try:
            async for vb in client.walk(OID(BASE + (66,)), errors=rig.lenient() if kind.endswith("warn") else "".join(("str", "ict"))):
                rows.append((rig.oid_t(vb.oid), rig.to_tuple(vb.value)))
        except SnmpError as exc:
            return (rows, _raised(exc))
        return (rows, "ended normally")
    if kind == "set-refused":
        try:
            return ("data", rig.to_tuple(await client.set(OID(READONLY), rig.from_tuple(("int", 8)))))
        except SnmpError as exc:
            return _raised(exc)
    if kind == "table":
        rows = await client.table(OID(BASE + (7, 1)))
        return sorted([{k: (v if k == "0" else rig.to_tuple(v)) for k, v in r.items()} for r in rows], key=lambda r: r["0"])
    raise ValueError(kind)


class Parker:
    """Sender that parks every request until the scheduler answers it."""

    def __init__(self):
        self.pending = []  # (op id, packet, future)
        self.log = []

    async def __call__(self, endpoint, packet, timeout=None, retries=None, loop=None):
        fut = asyncio.get_running_loop().create_future()
        self.pending.append((OPVAR.get(), bytes(packet), fut, str(endpoint.ip)))
        return await fut


CLOCK_MODE = ["stepping"]
CANCEL = [None]  # (operation index, decision step) - that operation is cancelled there
SLOW = [None]  # operation index whose requests are answered last


async def run_schedule(mode, ops, prefix, rng, events):
    """
    One execution.  Returns (results per op, trace [(choice, alternatives)],
    order [op id answered], agents).
    """
    parker = Parker()
    users = [agent_mod.User(b"vfuser", ("sha1", rig.AUTH_PW), ("vfstream8", rig.PRIV_PW)), agent_mod.User(b"second", ("md5", b"second-auth-pw"), ("vfstream8", b"second-priv-pw"))]
    # the agent's engine clock is separate and frozen; the CLIENT clock advances
    # by one second on every read, so that concurrent operations carry different
    # request ids (state shared between operations becomes observable)
    agent = agent_mod.Agent(DB, users=users, clock=rig.env.Clock())
    agent.pdu_hook = device_quirks
    agents = {"192.0.2.1": agent, "192.0.2.2": agent}
    if mode == "v3-fresh-two-step":
        # RFC 3414 section 4 discovery in two steps: the unauthenticated report reveals
        # the engine id with boots = time = 0, the real values only come with the
        # authenticated notInTimeWindow report that answers the first real request
        agent.two_step_discovery = True
        agent.boots = 9
    if mode == "v2c":
        clients = [Client("192.0.2.1", rig.credentials_for("v2c"), sender=parker)]
    else:
        clients = [Client("192.0.2.1", rig.credentials_for("v3-sha1-priv"), sender=parker)]
        if mode == "v3-two-clients":
            clients.append(Client("192.0.2.2", V3("second", Auth(b"second-auth-pw", "md5"), Priv(b"second-priv-pw", "vfstream8")), sender=parker))
        if mode == "v3-two-engines":
            # two devices (different engine ids) that know the same user, one client each
            agent_b = agent_mod.Agent(DB, users=users, clock=rig.env.Clock(), engine_id=bytes.fromhex("80001f8804") + b"vf-agent-B", boots=7)
            agent_b.pdu_hook = device_quirks
            agents["192.0.2.2"] = agent_b
            clients.append(Client("192.0.2.2", rig.credentials_for("v3-sha1-priv"), sender=parker))
    results = {}

    async def wrapper(i, kind, client):
        OPVAR.set(i)
        try:
            results[i] = ("ok", await do_op(client, kind, i))
        except asyncio.CancelledError:
            results[i] = ("cancelled", None)
        except Exception as exc:  # noqa: BLE001 - the outcome of the op
            results[i] = ("exc", exc)

    async def settle():
        for _ in range(6):
            await asyncio.sleep(0)

    if mode in ("v3-primed", "v3-primed-reboot"):
        OPVAR.set("prime")
        t = asyncio.ensure_future(clients[0].get(OID(BASE + (1, 1, 0))))
        while not t.done():
            await settle()
            if not parker.pending and not t.done():
                raise rig.WouldBlock("prime blocked")
            while parker.pending:
                _, pkt, fut, ip = parker.pending.pop(0)
                fut.set_result(agents[ip].handle(pkt))
        t.result()
        agent.requests.clear()
    tasks = []
    for i, kind in enumerate(ops):
        client = clients[i % len(clients)]
        tasks.append(asyncio.ensure_future(wrapper(i, kind, client)))
    trace = []
    order = []
    step = 0
    reboot_at = len(ops) // 2 if mode == "v3-primed-reboot" else -1
    cancel_op, cancel_at = CANCEL[0] if CANCEL[0] else (None, -1)
    slow_op = SLOW[0]
    while True:
        await settle()
        if all(t.done() for t in tasks):
            break
        if cancel_op is not None and step == cancel_at and not tasks[cancel_op].done():
            # the caller gives up on ONE operation while everything is in flight
            tasks[cancel_op].cancel()
            parker.pending = [p for p in parker.pending if p[0] != cancel_op]
            cancel_at = -1
            await settle()
            if all(t.done() for t in tasks):
                break
        if not parker.pending:
            raise rig.WouldBlock("operations are blocked on something that is not the sender")
        parker.pending.sort(key=lambda p: p[0])
        if slow_op is not None:
            # the slow operation's request is answered only when nothing else is left
            others = [p for p in parker.pending if p[0] != slow_op]
            if others:
                held = [p for p in parker.pending if p[0] == slow_op]
                parker.pending = others
                restore = held
            else:
                restore = []
        else:
            restore = []
        n = len(parker.pending)
        if step < len(prefix):
            choice = prefix[step]
        elif rng is not None:
            choice = rng.randrange(n)
        else:
            choice = 0
        choice = min(choice, n - 1)
        trace.append((choice, n))
        if mode == "v3-primed-reboot" and step == reboot_at:
            # the device reboots while requests are in flight: every one of them gets an
            # authentic notInTimeWindow report and has to re-synchronise on its own
            agent.reboot()
        op_id, pkt, fut, ip = parker.pending.pop(choice)
        parker.pending.extend(restore)
        order.append(op_id)
        resp = agents[ip].handle(pkt)
        if resp is None:
            fut.set_exception(rig.Timeout("no reply"))
        else:
            fut.set_result(resp)
        step += 1
        if step > 1500:
            raise rig.BudgetExceeded("schedule too long")
    if mode == "v3-two-engines":
        agent.counters.update(agents["192.0.2.2"].counters)
    return results, trace, order, agent, clients


def execute(mode, ops, prefix, rng):
    events = []
    SHARED.clear()
    del EXC_OBJECTS[:]
    rig.env.CLOCK.freeze(1_700_000_000.0)
    if CLOCK_MODE[0] == "stepping":
        # every read advances: concurrent operations carry DIFFERENT request ids
        rig.env.CLOCK.stepping(lambda: 1.0)
    elif CLOCK_MODE[0] == "ticking":
        # the second ticks over now and then: SOME concurrent operations share a
        # request id and others do not
        import random as _random

        tick = _random.Random(len(ops) * 7919 + len(mode))
        rig.env.CLOCK.stepping(lambda: 1.0 if tick.random() < 0.3 else 0.0)
    # "frozen": all operations start within the same second and carry the SAME
    # request id (ids are int(time())), which is what happens in real use
    loop = asyncio.new_event_loop()
    loop.set_exception_handler(lambda l, ctx: events.append("loop: %s" % ctx.get("message")))
    with warnings.catch_warnings(record=True) as caught:
        warnings.simplefilter("always")
        try:
            out = loop.run_until_complete(run_schedule(mode, ops, prefix, rng, events))
        finally:
            try:
                loop.run_until_complete(loop.shutdown_asyncgens())
            finally:
                loop.close()
                rig.env.CLOCK.freeze(1_700_000_000.0)
        gc.collect()
    for wmsg in caught:
        text = str(wmsg.message)
        if "never awaited" in text or "never retrieved" in text:
            events.append("warning: %s" % text)
    return out + (events,)


_SOLO = {}


def solo(mode, kind, slot):
    key = (mode.startswith("v3"), kind, slot)
    if key not in _SOLO:
        w = World("v3-sha1-priv" if mode.startswith("v3") else "v2c", DB)
        w.agent.pdu_hook = device_quirks
        _SOLO[key] = ("ok", rig.drive(do_op(w.client, kind, slot)))
    return _SOLO[key]


def judge(R, case, mode, ops, results, order, agent, clients, events):
    R.mon["interleavings_run"] += 1
    R.mon["requests_answered"] += len(order)
    for i, kind in enumerate(ops):
        got = results.get(i)
        if CANCEL[0] and CANCEL[0][0] == i:
            # the cancelled operation itself: cancelled, or finished before that point
            if got is not None and got[0] not in ("cancelled", "ok"):
                R.violation(dict(case, order=order), "the cancelled operation %d (%s) ended with %r" % (i, kind, got), None)
                return False
            R.mon["ops_cancelled_midway"] += 1
            continue
        want = solo(mode, kind, i)
        if got is None or got[0] != "ok" or got[1] != want[1]:
            R.violation(dict(case, order=order), "operation %d (%s) got %r under answer order %r; running alone it gets %r" % (i, kind, str(got)[:160], order, str(want[1])[:160]), None)
            return False
        R.mon["ops_equal_to_solo"] += 1
    # operations that ended in an error: each has an exception object of its own (an
    # exception carries per-raise state - traceback, context, notes - so one object raised
    # into two operations shows each of them the other's failure)
    for a in range(len(EXC_OBJECTS)):
        for b in range(a + 1, len(EXC_OBJECTS)):
            if EXC_OBJECTS[a][1] is EXC_OBJECTS[b][1] and EXC_OBJECTS[a][0] != EXC_OBJECTS[b][0]:
                R.violation(dict(case, order=order), "operations %r and %r were handed the very same exception object %r" % (EXC_OBJECTS[a][0], EXC_OBJECTS[b][0], EXC_OBJECTS[a][1]), None)
                return False
    R.mon["failed_operations_with_an_exception_of_their_own"] += len(EXC_OBJECTS)
    if events:
        R.violation(dict(case, order=order), "event-loop hygiene: %r" % events[:3], None)
        return False
    watched = ("wrong_digest", "unknown_user", "decrypt_error", "unsupported_level", "not_in_window", "bad_community", "asn_parse_error")
    if mode in ("v3-primed-reboot", "v3-fresh-two-step"):
        watched = tuple(k for k in watched if k != "not_in_window")
        R.mon["notinwindow_reports_during_concurrency"] += agent.counters.get("not_in_window", 0)
    bad = {k: v for k, v in agent.counters.items() if k in watched and v}
    if bad:
        R.violation(dict(case, order=order), "agent counters after the run: %r" % bad, None)
        return False
    if mode == "v3-two-clients":
        # every request carries its own client's user: the agent decoded user names
        names = {r["usm"]["user"] for r in agent.requests if "usm" in r and r["usm"]["user"]}
        if not names <= {b"vfuser", b"second"}:
            R.violation(dict(case, order=order), "foreign user names on the wire: %r" % names, None)
            return False
    if mode.startswith("v3"):
        R.mon["discoveries_seen"] += agent.counters.get("unknown_engine", 0)
    return True


def explore(R, mode, ops, max_enum, sample_n, seed, clock="stepping", frac=1.0):
    CLOCK_MODE[0] = clock
    case = {"mode": mode, "ops": list(ops), "clock": clock, "cancel": list(CANCEL[0]) if CANCEL[0] else None, "slow": SLOW[0]}
    stack = [[]]
    runs = 0
    seen = set()
    complete = True
    while stack:
        if runs >= max_enum:
            complete = False
            break
        if not R.time_left(frac):
            complete = False
            break
        prefix = stack.pop()
        results, trace, order, agent, clients, events = execute(mode, ops, prefix, None)
        runs += 1
        seen.add(tuple(order))
        R.case(("c14", mode, clock, CANCEL[0], SLOW[0], tuple(ops), tuple(order)), len(order) >= 2, sample={**case, "order": order, "decisions": trace} if runs == 1 and R.evaluations % 7 == 0 else None)
        if not judge(R, dict(case, prefix=prefix), mode, ops, results, order, agent, clients, events):
            return
        for i in range(len(prefix), len(trace)):
            c, n = trace[i]
            for alt in range(c + 1, n):
                stack.append([t[0] for t in trace[:i]] + [alt])
    if complete:
        R.mon["sets_fully_enumerated"] += 1
        R.mon["interleavings_in_fully_enumerated_sets"] += runs
    else:
        R.mon["sets_sampled"] += 1
        rng = random.Random(seed)
        for _ in range(sample_n):
            if not R.time_left(frac):
                break
            results, trace, order, agent, clients, events = execute(mode, ops, [], rng)
            R.case(("c14", mode, clock, tuple(ops), tuple(order)), len(order) >= 2)
            if not judge(R, dict(case, sampled_seed=seed), mode, ops, results, order, agent, clients, events):
                return


def run(R):
    n = N_SETS[R.tier]
    modes = ("v2c", "v2c", "v3-primed", "v2c", "v3-fresh", "v2c", "v3-two-clients", "v2c", "v3-two-engines", "v2c", "v3-primed-reboot", "v2c", "v3-fresh-two-step")
    fixed = [
        ("v2c", ("get", "set")),
        ("v2c", ("get", "walk")),
        ("v2c", ("walk", "walk9")),
        ("v2c", ("get", "set", "getnext")),
        ("v2c", ("set", "bulkwalk", "get")),
        ("v2c", ("walk", "bulkwalk")),
        ("v2c", ("table", "set", "get")),
        ("v3-primed", ("get", "set")),
        ("v3-fresh", ("get", "set")),
        ("v3-fresh", ("get", "get", "get")),
        ("v3-two-clients", ("get", "set")),
        ("v3-two-clients", ("getnext", "walk9")),
        ("v3-two-engines", ("get", "set")),
        ("v3-two-engines", ("get", "getnext", "set", "multiget")),
        ("v3-primed-reboot", ("get", "set")),
        ("v3-primed-reboot", ("get", "getnext", "set")),
        ("v2c", ("bulkget", "bulkget", "get")),
        ("v3-primed", ("bulkget", "multiwalk2", "bulkget")),
        ("v2c", ("multiwalk2", "multiwalk2")),
    ]
    failing = [
        ("v2c", ("stuckwalk-strict", "stuckwalk-warn")),
        ("v2c", ("stuckwalk-warn", "stuckwalk-strict")),
        ("v2c", ("stuckwalk-warn", "stuckwalk-strict", "stuckwalk-warn")),
        ("v2c", ("stuckwalk-strict", "walk9", "stuckwalk-warn")),
        ("v3-primed", ("stuckwalk-strict", "stuckwalk-warn")),
        ("v2c", ("set-refused", "set-refused")),
        ("v2c", ("set-refused", "get", "set-refused")),
        ("v3-primed", ("set-refused", "set-refused", "set")),
        ("v3-two-engines", ("set-refused", "set-refused")),
        ("v3-two-clients", ("set-refused", "stuckwalk-strict", "set-refused")),
    ]
    k = 0
    # the small deterministic blocks first: a time cap must never starve them
    # a slow operation stays unanswered while a long walk (170 requests) goes by
    for mode in ("v2c", "v3-primed"):
        for clock in ("stepping", "frozen"):
            k += 1
            if not R.mine(k):
                continue
            SLOW[0] = 0
            try:
                explore(R, mode, ("get", "longwalk"), 1, 0, k, clock=clock)
                R.mon["slow_get_during_long_walk"] += 1
            finally:
                SLOW[0] = None
    for mode, ops in (("v3-fresh-two-step", ("get", "get")), ("v3-fresh-two-step", ("get", "set", "getnext")), ("v3-fresh-two-step", ("walk9", "get"))):
        for clock in ("frozen", "stepping"):
            k += 1
            if R.mine(k):
                explore(R, mode, ops, MAX_ENUM[R.tier] // 2, 20, k, clock=clock)
                R.mon["two_step_discovery_sets"] += 1
    for mode, ops in (("v3-primed", ("get", "get", "get", "set")), ("v3-primed", ("get", "getnext", "get")), ("v2c", ("get", "get", "get", "getnext")), ("v3-fresh", ("get", "get", "get", "get"))):
        k += 1
        if R.mine(k):
            explore(R, mode, ops, MAX_ENUM[R.tier] // 2, 20, k, clock="ticking")
            R.mon["ticking_clock_sets"] += 1
    # operations that end in an error (a device that stops advancing under a strict and a
    # lenient walk at once, refused SETs): each ends the way it ends alone
    for mode, ops in failing:
        for clock in ("stepping", "frozen"):
            k += 1
            if R.mine(k):
                explore(R, mode, ops, MAX_ENUM[R.tier] // 4, 10, k, clock=clock, frac=0.5)
                R.mon["sets_with_failing_operations"] += 1
    # one operation is cancelled by its caller while the others are in flight
    for mode, ops in (("v2c", ("get", "walk", "set")), ("v3-fresh", ("get", "get", "set")), ("v3-fresh", ("walk9", "get")), ("v3-primed", ("get", "walk", "set")), ("v3-two-clients", ("get", "set", "getnext"))):
        for cancel_op in range(len(ops)):
            for cancel_at in (0, 1, 2):
                k += 1
                if not R.mine(k):
                    continue
                CANCEL[0] = (cancel_op, cancel_at)
                try:
                    explore(R, mode, ops, 40, 6, k, clock=("stepping", "frozen")[k % 2])
                finally:
                    CANCEL[0] = None
    # systematic enumeration of the fixed sets (at most 60% of the time cap)
    for mode, ops in fixed:
        k += 1
        if not R.mine(k):
            continue
        explore(R, mode, ops, MAX_ENUM[R.tier], 30, k, clock="stepping", frac=0.6)
        k += 1
        if R.mine(k):
            explore(R, mode, ops, MAX_ENUM[R.tier], 30, k, clock="frozen", frac=0.6)
        if len(ops) >= 3:
            k += 1
            if R.mine(k):
                explore(R, mode, ops, MAX_ENUM[R.tier] // 2, 20, k, clock="ticking", frac=0.6)
    for i in range(n):
        k += 1
        if not R.mine(k):
            continue
        if not R.time_left():
            break
        rng = R.rng(i)
        mode = modes[i % len(modes)]
        nops = rng.choice((2, 2, 3, 3, 4, 5, 6))
        ops = tuple(rng.choice(OPKINDS) for _ in range(nops))
        v3 = mode.startswith("v3")
        explore(R, mode, ops, MAX_ENUM[R.tier] // (8 if v3 else 1), 12 if v3 else 60, i, clock=("stepping", "frozen", "ticking")[(i // len(modes)) % 3])


def replay(R, v):
    c = v["case"]
    ops = tuple(c["ops"])
    CLOCK_MODE[0] = c.get("clock", "stepping")
    CANCEL[0] = tuple(c["cancel"]) if c.get("cancel") else None
    SLOW[0] = c.get("slow")
    if "prefix" in c:
        results, trace, order, agent, clients, events = execute(c["mode"], ops, c["prefix"], None)
        R.evaluations += 1
        judge(R, c, c["mode"], ops, results, order, agent, clients, events)
    else:
        rng = random.Random(c.get("sampled_seed", 0))
        for _ in range(60):
            results, trace, order, agent, clients, events = execute(c["mode"], ops, [], rng)
            R.evaluations += 1
            if not judge(R, c, c["mode"], ops, results, order, agent, clients, events):
                return
