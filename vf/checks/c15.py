"""
C15 - everything the pythonic wrapper returns consists solely of built-in
Python types (dict keys included) and equals the element-wise pythonisation
of what the raw client returns for the same exchange.
"""

import datetime
import ipaddress
from collections import OrderedDict

from .. import rig  # noqa: F401
from .. import gen
from . import trapview
from ..rig import OID, World, drive, drive_agen, oid_s, oid_t, to_tuple
from puresnmp.util import BulkResult
from puresnmp.varbind import PyVarBind

PROP = "C15"
LEVEL = "exploration"
SHARDS = {"quick": 4, "thorough": 16}
TIME_CAP = {"quick": 50, "thorough": 600}
N_CASES = {"quick": 2500, "thorough": 120000}
RULE = (
    "All eleven PyWrapper operations (get, getnext, multiget, set, multiset, walk, multiwalk, "
    "bulkwalk, bulkget, table, bulktable) against databases holding every SNMP value type and "
    "tables with multi-component indexes, v1/v2c/v3 levels, OID strings with and without a "
    "leading dot. Monitor: recursive exact-type walk "
    "over the returned object (leaves in {str,int,bytes,timedelta,IPv4Address,NoneType}; "
    "containers list/tuple/PyVarBind/dict/OrderedDict, BulkResult for bulkget; dict KEYS "
    "checked too) and equality with the pythonisation of the raw Client's result for the same "
    "call on an identical fresh agent. Non-trivial: the result holds >=1 leaf; distinct by "
    "(operation, level, multiset of leaf value kinds)."
    " Half of the multiwalk/bulkwalk cases walk 2-7 sibling roots (x.1 / x.10..x.13, x.2 / x."
    "20, table columns) in any order."
    " Seventeen values whose content does not suit their type go through eight wrapper operat"
    "ions (strict and lenient): refusing is fine, whatever is returned consists of built-in t"
    "ypes."
    " A 2050-row (thorough 4100-row) table through bulktable, table and a two-root bulk walk."
    " The agent confirms a SET under another name (keys stay str); one wrapper hands out 7200"
    "0 distinct OIDs."
    ' TrapInfo (origin, uptime, trap OID, values) for 260 notifications decoded from independ'
    'ently written octets. One case in five follows a bulk walk the device refused as tooBig,'
    ' on wrapper and raw client alike.'
)
ASSUMPTIONS = [
    "pythonisation per type: INTEGER/Counter/Gauge/Counter64 -> int, OCTET STRING/Opaque -> bytes, OID -> dotted str, IpAddress -> IPv4Address, TimeTicks -> timedelta(10 ms * t), NULL and exception markers -> None",
    "BulkResult is the documented container of bulkget",
]
REQUIRED_MONITORS = ("typewalk_leaves", "equal_to_raw")

LEAF_TYPES = (str, int, bytes, datetime.timedelta, ipaddress.IPv4Address, type(None))
OPS = ("get", "getnext", "multiget", "set", "multiset", "walk", "multiwalk", "bulkwalk", "bulkget", "table", "bulktable")


def typewalk(obj, path, problems, leaves):
    t = type(obj)
    if t in LEAF_TYPES:
        leaves.append(t.__name__)
        return
    if t is bool:
        problems.append("%s: bool" % path)
        return
    if t in (list, tuple, PyVarBind):
        for i, x in enumerate(obj):
            typewalk(x, "%s[%d]" % (path, i), problems, leaves)
        return
    if t in (dict, OrderedDict):
        for k, v in obj.items():
            if type(k) not in LEAF_TYPES:
                problems.append("%s: dict key of type %s (%r)" % (path, type(k).__name__, k))
            else:
                leaves.append("key:" + type(k).__name__)
            typewalk(v, "%s[%r]" % (path, k), problems, leaves)
        return
    if t is BulkResult:
        typewalk(obj.scalars, path + ".scalars", problems, leaves)
        typewalk(obj.listing, path + ".listing", problems, leaves)
        return
    try:
        shown = repr(obj)
    except Exception as exc:  # noqa: BLE001 - lazily decoded objects may not even print
        shown = "<repr raised %r>" % (exc,)
    problems.append("%s: %s (%s)" % (path, t.__module__ + "." + t.__name__, shown[:120]))


def py_of_raw(op, raw):
    """Element-wise pythonisation of a raw result, from its independent tuples."""
    P = rig.pythonized
    if op == "get":
        return P(to_tuple(raw))
    if op == "getnext":
        return (oid_s(oid_t(raw.oid)), P(to_tuple(raw.value)))
    if op == "multiget":
        return [P(to_tuple(v)) for v in raw]
    if op == "set":
        return P(to_tuple(raw))
    if op == "multiset":
        return {oid_s(oid_t(k)): P(to_tuple(v)) for k, v in raw.items()}
    if op in ("walk", "multiwalk", "bulkwalk"):
        return [(oid_s(oid_t(vb.oid)), P(to_tuple(vb.value))) for vb in raw]
    if op == "bulkget":
        return (
            [(oid_s(oid_t(k)), P(to_tuple(v))) for k, v in raw.scalars.items()],
            [(oid_s(oid_t(k)), P(to_tuple(v))) for k, v in raw.listing.items()],
        )
    if op in ("table", "bulktable"):
        out = []
        for row in raw:
            out.append({k: (v if k == "0" else P(to_tuple(v))) for k, v in row.items()})
        return sorted(out, key=lambda r: r["0"])
    raise ValueError(op)


def norm_py(op, res):
    if op == "getnext":
        return (res[0], res[1])
    if op in ("walk", "multiwalk", "bulkwalk"):
        return [(vb[0], vb[1]) for vb in res]
    if op == "bulkget":
        return (list(res.scalars.items()), list(res.listing.items()))
    if op in ("table", "bulktable"):
        return sorted((dict(r) for r in res), key=lambda r: str(r.get("0")))
    if op == "multiset":
        return dict(res)
    return res


def do(op, w, args, py):
    c = w.py if py else w.client
    # the pythonic API takes dotted strings, with or without a leading dot
    dot = "." if args.get("leading_dot") else ""
    conv = (lambda o: dot + oid_s(o)) if py else OID
    if op == "get":
        return drive(c.get(conv(args["oid"])))
    if op == "getnext":
        return drive(c.getnext(conv(args["oid"])))
    if op == "multiget":
        return drive(c.multiget([conv(o) for o in args["oids"]]))
    if op == "set":
        return drive(c.set(conv(args["oid"]), rig.from_tuple(args["value"])))
    if op == "multiset":
        return drive(c.multiset({conv(o): rig.from_tuple(v) for o, v in args["pairs"]}))
    if op == "walk":
        return drive_agen(c.walk(conv(args["root"])), limit=max(400, 2 * len(w.agent.db) + 50))
    if op == "multiwalk":
        return drive_agen(c.multiwalk([conv(r) for r in args["roots"]]), limit=max(400, 2 * len(w.agent.db) + 50))
    if op == "bulkwalk":
        return drive_agen(c.bulkwalk([conv(r) for r in args["roots"]], bulk_size=args["bulk"]), limit=max(400, 2 * len(w.agent.db) + 50))
    if op == "bulkget":
        return drive(c.bulkget([conv(o) for o in args["scalars"]], [conv(o) for o in args["repeaters"]], max_list_size=args["maxrep"]))
    if op == "table":
        return drive(c.table(conv(args["entry"])))
    if op == "bulktable":
        return drive(c.bulktable(conv(args["table"]), bulk_size=args["bulk"]))
    raise ValueError(op)


def gen_case(rng, op):
    table, entry, cells, db = gen.gen_table(rng)
    # plus a scalar group holding every value type
    grp = (1, 3, 6, 1, 4, 1, 9, rng.randint(1, 3))
    for i, kind in enumerate(gen.VALUE_KINDS):
        db[grp + (i + 1, 0)] = gen.gen_value(rng, (kind,))
    for _ in range(rng.randint(0, 5)):
        db[grp + (rng.randint(20, 40), rng.randint(0, 5))] = gen.gen_value(rng)
    keys = sorted(db)
    pick = lambda: rng.choice(keys)  # noqa: E731
    if op in ("get", "getnext"):
        k = pick()
        if op == "getnext" and k == keys[-1]:
            k = keys[0]
        return db, {"oid": k}
    if op == "multiget":
        return db, {"oids": [pick() if rng.random() < 0.85 else grp + (99, 0) for _ in range(rng.randint(1, 6))]}
    if op == "set":
        return db, {"oid": pick(), "value": gen.gen_value(rng)}
    if op == "multiset":
        return db, {"pairs": [(o, gen.gen_value(rng)) for o in sorted(set(pick() for _ in range(rng.randint(1, 5))))]}
    if op == "walk":
        return db, {"root": rng.choice((grp, entry, table))}
    if op in ("multiwalk", "bulkwalk") and rng.random() < 0.5:
        # sibling roots, among them pairs whose last arc starts with the same decimal
        # digits (x.1 and x.10 .. x.13), the table's columns, in any order
        subs = sorted({k[: len(grp) + 1] for k in db if k[: len(grp)] == grp and len(k) > len(grp)})
        cols = sorted({k[: len(entry) + 1] for k in db if k[: len(entry)] == entry and len(k) > len(entry)})
        pool = subs + cols
        must = [r for r in subs if r[-1] in (1, 2)] + [r for r in subs if r[-1] in (10, 11, 12, 13, 20, 21)]
        roots = list(dict.fromkeys(rng.sample(must, min(len(must), rng.randint(2, 4))) + rng.sample(pool, min(len(pool), rng.randint(0, 3)))))
        rng.shuffle(roots)
        a = {"roots": roots}
        if op == "bulkwalk":
            a["bulk"] = rng.choice((1, 3, 10))
        return db, a
    if op == "multiwalk":
        return db, {"roots": [grp, table] if rng.random() < 0.5 else [table, grp]}
    if op == "bulkwalk":
        return db, {"roots": rng.choice(([grp], [table], [grp, table])), "bulk": rng.choice((1, 3, 10))}
    if op == "bulkget":
        return db, {"scalars": [pick() for _ in range(rng.randint(0, 3))], "repeaters": [rng.choice((grp, entry, pick())) for _ in range(rng.randint(0, 2))], "maxrep": rng.randint(0, 6)}
    if op == "table":
        return db, {"entry": entry}
    if op == "bulktable":
        return db, {"table": table, "bulk": rng.choice((1, 3, 10))}
    raise ValueError(op)


def run_case(R, level, op, db, args):
    from .walkcommon import enc_db

    case = {"level": level, "op": op, "db": enc_db(db), "args": rig.jsonable(args)}
    wp = World(level, db)
    wr = World(level, db)
    for w in (wp, wr):
        w.prime()
        w.seam.budget = 200 + 3 * len(db)
    if args.get("before") and level != "v1":
        # the path after a failure: the wrapper's (and, for the comparison, the raw
        # client's) previous call was a bulk walk the device refused as tooBig, handled by
        # the caller; the operation under test is an ordinary later call on the same object
        from .. import ber as _ber

        size = int(args["before"])
        some_root = sorted(db)[0][:-1]
        for w, through_wrapper in ((wp, True), (wr, False)):
            w.agent.pdu_hook = lambda req, resp: dict(resp, error_status=1, error_index=0, varbinds=[]) if req["type"] == _ber.PDU_GETBULK else resp
            try:
                drive_agen(w.py.bulkwalk([oid_s(some_root)], bulk_size=size) if through_wrapper else w.client.bulkwalk([OID(some_root)], bulk_size=size), limit=10)
            except Exception:  # noqa: BLE001 - refused, as arranged
                pass
            finally:
                w.agent.pdu_hook = None
            w.seam.reset(budget=200 + 3 * len(db))
            w.agent.requests.clear()
        R.mon["ops_after_a_refused_bulk_walk"] += 1
    try:
        rp = rig.outcome(lambda: do(op, wp, args, True))
        rr = rig.outcome(lambda: do(op, wr, args, False))
    except rig.BudgetExceeded:
        R.violation(case, "request budget exceeded", None)
        return
    R.mon["ops_" + op] += 1
    if rp[0] != "ok" or rr[0] != "ok":
        same = rp[0] == rr[0] == "exc" and type(rp[1]) is type(rr[1])
        R.case(("c15-exc", op, level, type(rp[1]).__name__), False)
        if not same:
            R.violation(case, "wrapper outcome %r differs from raw outcome %r" % (rp[1], rr[1]), None)
        else:
            R.mon["both_raised_same"] += 1
        return
    problems, leaves = [], []
    typewalk(rp[1], "result", problems, leaves)
    kinds = tuple(sorted(set(leaves)))
    R.case(("c15", op, level, kinds, len(leaves) > 3, bool(args.get("leading_dot"))), bool(leaves), sample={**case, "result": repr(rp[1])[:300]} if R.evaluations % 499 == 0 else None)
    R.mon["typewalk_leaves"] += len(leaves)
    if problems:
        mech = None
        if op == "bulkget" and all("dict key of type ObjectIdentifier" in p for p in problems):
            mech = "bulkget-oid-keys"
        R.violation(case, "non built-in types in the wrapper's result: %s" % "; ".join(problems[:4]), mech)
        return
    expect = py_of_raw(op, rr[1])
    got = norm_py(op, rp[1])
    if got != expect:
        R.violation(case, "wrapper returned %r, pythonised raw result is %r" % (str(got)[:300], str(expect)[:300]), None)
        return
    R.mon["equal_to_raw"] += 1
    if op in ("walk", "multiwalk", "bulkwalk", "table", "bulktable") and args.get("again"):
        # the SAME wrapper: the operation is abandoned part-way (consumer stops after
        # one item / transport times out), then repeated in full: must be equal again
        how = args["again"]
        wp.seam.reset(budget=200)
        inner = wp.seam.responder
        count = {"n": 0}

        def lossy(data):
            count["n"] += 1
            return None if how == "timeout" and count["n"] > 1 else inner(data)

        wp.seam.responder = lossy
        try:
            try:
                if op in ("table", "bulktable"):
                    do(op, wp, args, True)
                else:
                    c = wp.py
                    dot = "." if args.get("leading_dot") else ""
                    conv = lambda o: dot + oid_s(o)  # noqa: E731
                    agen = c.walk(conv(args["root"])) if op == "walk" else c.multiwalk([conv(r) for r in args["roots"]]) if op == "multiwalk" else c.bulkwalk([conv(r) for r in args["roots"]], bulk_size=args["bulk"])

                    async def partial():
                        try:
                            async for _ in agen:
                                if how == "stop":
                                    break
                        finally:
                            await agen.aclose()

                    rig._run(partial())
            except Exception:  # noqa: BLE001
                pass
        finally:
            wp.seam.responder = inner
            wp.seam.reset(budget=200)
        again = rig.outcome(lambda: do(op, wp, args, True))
        if again[0] != "ok" or norm_py(op, again[1]) != expect:
            R.violation(case, "after an abandoned %s (%s) the same wrapper returned %r, expected %r" % (op, how, str(norm_py(op, again[1]) if again[0] == "ok" else again[1])[:200], str(expect)[:200]), None)
            return
        R.mon["repeated_after_abandoned_ok"] += 1


ODD = (
    bytes([0x40, 17]) + b"\x01" * 17, bytes([0x40, 3]) + b"\x01\x02\x03", b"\x40\x00", bytes([0x40, 16]) + b"\x00" * 15 + b"\x01",
    b"\x43\x08" + b"\xff" * 8, b"\x43\x00", b"\x41\x09" + b"\x01" * 9, b"\x42\x00", b"\x46\x0a" + b"\x7f" * 10,
    b"\x06\x03\x2b\x06\x81", b"\x06\x00", b"\x06\x01\x80", b"\x02\x00", b"\x05\x01\x00", b"\x44\x00", b"\x80\x01\x00", b"\x82\x02\x00\x00",
)


def renamed_set(R):
    """The agent confirms a SET under another name than the one requested (a lenient agent
    that reports the instance `x.0` for a request naming `x`; same number of bindings):
    the wrapper's result is still made of built-in types only - its KEYS included - and
    equals the pythonised raw result."""
    base = (1, 3, 6, 1, 4, 1, 9, 6)
    db = {base + (i, 0): ("int", i) for i in (1, 2, 3)}

    def rename(req, resp):
        if req["type"] != 0xA3:
            return resp
        out = dict(resp)
        out["varbinds"] = [(tuple(o) + (0,) if j % 2 == 0 else (1, 3, 6, 1, 4, 1, 9, 7, j), v) for j, (o, v) in enumerate(resp["varbinds"])]
        return out

    for level in ("v1", "v2c", "v3-md5-priv"):
        for n in (1, 2, 3):
            pairs = [(base + (i,), ("int", 10 * i)) if i % 2 else (base + (i, 0), ("str", b"s")) for i in range(1, n + 1)]
            wp, wr = World(level, db), World(level, db)
            for w in (wp, wr):
                w.prime()
                w.agent.any_set = True
                w.agent.pdu_hook = rename
            rp = rig.outcome(lambda: drive(wp.py.multiset({oid_s(o): rig.from_tuple(v) for o, v in pairs})))
            rr = rig.outcome(lambda: drive(wr.client.multiset({OID(o): rig.from_tuple(v) for o, v in pairs})))
            R.case(("c15-renamed-set", level, n, rp[0], rr[0]), rp[0] == "ok")
            R.mon["renamed_set_cases"] += 1
            if rp[0] != "ok":
                if rr[0] == "ok":
                    R.violation({"level": level, "op": "renamed-set", "db": None, "args": None}, "raw multiset returned %r, the wrapper raised %r" % (rr[1], rp[1]), None)
                continue
            problems, leaves = [], []
            typewalk(rp[1], "multiset", problems, leaves)
            if problems:
                R.violation({"level": level, "op": "renamed-set", "db": None, "args": None}, "the agent confirmed a SET under another name: %s" % "; ".join(problems)[:300], None)
                return
            if rr[0] == "ok":
                want = {oid_s(oid_t(k)): rig.pythonized(to_tuple(v)) for k, v in rr[1].items()}
                if dict(rp[1]) != want:
                    R.violation({"level": level, "op": "renamed-set", "db": None, "args": None}, "wrapper multiset returned %r, pythonised raw result is %r" % (rp[1], want), None)
                    return
            R.mon["renamed_set_ok"] += 1


def odd_values(R):
    """Values whose content does not suit their type (a sloppy agent): the wrapper may
    refuse them, but whatever it RETURNS consists of built-in types only - in strict and
    in lenient mode, through every operation."""
    base = (1, 3, 6, 1, 4, 1, 9, 5)
    for j, raw in enumerate(ODD):
        db = {base + (1, 0): ("int", 1), base + (2, 0): ("rawtlv", raw), base + (3, 0): ("str", b"after")}
        for level in ("v2c", "v3-sha1-priv"):
            w = World(level, db)
            w.prime()
            p = w.py
            calls = (
                ("walk-strict", lambda: drive_agen(p.walk(oid_s(base)), limit=20)),
                ("walk-warn", lambda: drive_agen(p.walk(oid_s(base), errors=rig.lenient()), limit=20)),
                ("multiwalk", lambda: drive_agen(p.multiwalk([oid_s(base)]), limit=20)),
                ("bulkwalk", lambda: drive_agen(p.bulkwalk([oid_s(base)], bulk_size=3), limit=20)),
                ("get", lambda: drive(p.get(oid_s(base + (2, 0))))),
                ("getnext", lambda: drive(p.getnext(oid_s(base + (1, 0))))),
                ("multiget", lambda: drive(p.multiget([oid_s(base + (1, 0)), oid_s(base + (2, 0))]))),
                ("bulkget", lambda: drive(p.bulkget([oid_s(base + (1, 0))], [oid_s(base + (1,))], max_list_size=2))),
            )
            for name, fn in calls:
                w.seam.reset(budget=30)
                try:
                    res = rig.outcome(fn)
                except rig.BudgetExceeded:
                    continue
                R.case(("c15-odd", j, level, name, res[0]), res[0] == "ok")
                R.mon["odd_value_calls"] += 1
                if res[0] != "ok":
                    R.mon["odd_value_refused"] += 1
                    continue
                problems, leaves = [], []
                typewalk(res[1], name, problems, leaves)
                if problems:
                    R.violation({"level": level, "op": "odd:" + name, "odd": j, "db": None, "args": None}, "a value with unsuitable content (%s) came back as a non-built-in object: %s" % (raw.hex(), "; ".join(problems)[:300]), None)
                    return
                R.mon["odd_value_results_builtin"] += 1


def trap_views(R):
    """TrapInfo - the pythonic view of a received notification, defined in the same module
    as the wrapper: its values are built-in types and the element-wise pythonisation of the
    raw bindings, whatever value types (TimeTicks, payload named like a leading binding) the
    notification carries."""
    rng = R.rng("trapviews")
    for i in range(260):
        n = rng.choice((0, 1, 2, 3, 6, 11))
        payload = [((1, 3, 6, 1, 4, 1, 4242, 2, j), gen.gen_value(rng)) for j in range(n)]
        if payload and i % 3 == 0:
            payload[rng.randrange(n)] = rng.choice(((trapview.UPTIME, ("tt", rng.choice((0, 9, 2**32 - 1)))), (trapview.TRAPOID, ("oid", (1, 3, 6, 1, 4, 1, 4242, 0, 99))), ((1, 3, 6, 1, 4, 1, 4242, 3, i), ("tt", rng.choice((0, 1, 100, 2**31, 2**32 - 1))))))
        vbs = [(trapview.UPTIME, ("tt", rng.choice((0, 1, 4242, 2**31, 2**32 - 1)))), (trapview.TRAPOID, ("oid", (1, 3, 6, 1, 4, 1, 4242, 0, i)))] + payload
        R.case(("c15-trapview", tuple(sorted({v[0] for _, v in payload}))), True)
        trapview.judge(R, vbs, "trapinfo_views_checked")


def run(R):
    if R.shard == 0:
        trap_views(R)
    if R.shard == 1 % R.nshards:
        odd_values(R)
        renamed_set(R)
    if R.shard == 2 % R.nshards:
        # a table of more than 2000 rows (and a walk of more than 4000 instances)
        table = (1, 3, 6, 1, 4, 1, 4242, 9)
        entry = table + (1,)
        big = {}
        for r in range(1, 2051 if R.tier == "quick" else 4100):
            big[entry + (1, r)] = ("int", r)
            big[entry + (2, r)] = ("str", b"r%d" % r) if r % 3 else ("tt", r)
        big[(1, 3, 6, 1, 4, 1, 4242, 10, 0)] = ("int", 0)
        for op, args in (("bulktable", {"table": table, "bulk": 50}), ("table", {"entry": entry}), ("bulkwalk", {"roots": [entry + (1,), entry + (2,)], "bulk": 40})):
            run_case(R, "v2c", op, big, args)
            R.mon["big_table_cases"] += 1
    if R.shard == 3 % R.nshards:
        if True:
            # ONE wrapper object that has handed out more than 65536 distinct OIDs
            many = {(1, 3, 6, 1, 4, 1, 4242, 11, 1, c, r): ("int", r) for c in (1, 2) for r in range(1, 36001)}
            many[(1, 3, 6, 1, 4, 1, 4242, 12, 1, 0)] = ("str", b"afterwards")
            w = World("v2c", many)
            w.seam.budget = 10**6
            seen = 0
            problems = []
            for roots, bulk in (([(1, 3, 6, 1, 4, 1, 4242, 11, 1, 1)], 100), ([(1, 3, 6, 1, 4, 1, 4242, 11, 1, 2)], 100), ([(1, 3, 6, 1, 4, 1, 4242, 12)], 5)):
                for vb in drive_agen(w.py.bulkwalk([oid_s(r) for r in roots], bulk_size=bulk), limit=40000):
                    seen += 1
                    if type(vb.oid) is not str or type(vb.value) not in (int, bytes):
                        problems.append("item %d: oid %r (%s), value %r (%s)" % (seen, vb.oid, type(vb.oid).__name__, vb.value, type(vb.value).__name__))
                        break
            R.case(("c15-many-oids", seen), True)
            R.mon["oids_through_one_wrapper"] += seen
            if problems or seen != 72001:
                R.violation({"level": "v2c", "op": "many-oids", "db": None, "args": None}, "one wrapper object after %d distinct OIDs: %s" % (seen, problems[:1] or "expected 72001 items"), None)
    n = N_CASES[R.tier]
    levels = rig.LEVEL_CYCLE_ALL
    for i in range(n):
        if not R.mine(i):
            continue
        if not R.time_left():
            break
        rng = R.rng(i)
        op = OPS[i % len(OPS)]
        level = levels[(i // len(OPS)) % len(levels)]
        if level == "v1" and op in ("bulkwalk", "bulkget", "bulktable"):
            level = "v2c"
        db, args = gen_case(rng, op)
        args["leading_dot"] = rng.random() < 0.3
        args["again"] = rng.choice((None, "stop", "timeout"))
        if i % 5 == 1 or (op == "bulkget" and i % 2):
            args["before"] = rng.choice((2, 20))
            if op == "bulkget":
                args["maxrep"] = rng.choice((2, 6, 11, 14))
        if level == "v1":
            # v1 cannot carry Counter64
            db = {k: (v if v[0] != "c64" else ("c32", v[1] % 2**32)) for k, v in db.items()}
        run_case(R, level, op, db, args)


def replay(R, v):
    if v["case"].get("op") == "trapview":
        trapview.judge(R, trapview.vbs_of(v["case"]), "trapinfo_views_checked")
        return
    if str(v["case"].get("op", "")).startswith("odd:"):
        odd_values(R)
        return
    if v["case"].get("op") == "renamed-set":
        renamed_set(R)
        return
    from .walkcommon import dec_db

    c = v["case"]

    def fix(x):
        if isinstance(x, list):
            return tuple(fix(y) for y in x)
        if isinstance(x, str) and x.startswith("hex:"):
            return bytes.fromhex(x[4:])
        return x

    args = {k: (val if k in ("leading_dot", "again", "before") else fix(val)) for k, val in c["args"].items()}
    run_case(R, c["level"], c["op"], dec_db(c["db"]), args)
