"""
C16 - table fetches: one row per index, every cell exactly once under its
column number, full index under '0', nothing from outside, both variants and
all bulk sizes agree.
"""

from .. import rig  # noqa: F401
from .. import gen
from ..rig import OID, World, drive, drive_agen, oid_s, to_tuple
from . import walkcommon as wc

PROP = "C16"
LEVEL = "exploration"
SHARDS = {"quick": 4, "thorough": 16}
TIME_CAP = {"quick": 50, "thorough": 600}
N_CASES = {"quick": 500, "thorough": 25000}
BULKS = (1, 3, 10, 50)
RULE = (
    "Random conceptual tables in the agent database (table OID T, entry T.1, 1..6 columns, "
    "sparse cells, 0..8 rows, index suffixes of 1..4 components incl. sub-identifiers "
    "127/128/16383/16384/2^32-1, neighbours directly before and after the table). "
    "Client.table(T.1), Client.bulktable(T, bulk in {1,3,10,50}), PyWrapper.table and "
    "PyWrapper.bulktable against the reference agent; oracle: rows == {index: {'0': dotted "
    "index, column: value}} built from the database, equal between variants; one case in four "
    "runs six fetches in a row on ONE client (nothing may carry over). Non-trivial: "
    ">=1 cell; distinct by (columns, row indexes, sparsity pattern, variant, bulk, level)."
    " One fixed table has indexes that bring the instance OIDs to 126/127/128 sub-identifiers"
    " and index components at the BER / 32-bit boundaries."
    " One case in six answers request 1..3 of a fetch with tooBig/genErr/inconsistentValue: t"
    "he fetch raises, never a table with cells missing."
    " A table containing cells whose OIDs collide in the low 32 bits of their string hash und"
    "er the shard's own hash seed (searched at run time)."
    " Cells whose OIDs collide under zlib.crc32 / zlib.adler32."
    ' Every generated table is also built by hand: walk / bulk walk + tablify(num_base_nodes='
    "), tablify(base_oid='1.3...'), tablify(base_oid='.1.3...'). A v1 fetch whose only reques"
    "t is answered noSuchName is C08's matter and not judged."
)
ASSUMPTIONS = [
    "table() is addressed by the entry OID and bulktable() by the table OID, as their documentation and tests prescribe",
    "reference agent conformant (vf/agent.py)",
]
REQUIRED_MONITORS = ("tables_ok_exact",)


def expected_rows(cells, py=False):
    rows = {}
    for (col, idx), val in cells.items():
        rid = ".".join(str(a) for a in idx)
        row = rows.setdefault(rid, {"0": rid})
        row[str(col)] = rig.pythonized(val) if py else val
    return rows


def normalise(result, py=False):
    """list of row dicts -> ({row id: row}, problems)"""
    problems = []
    rows = {}
    for row in result:
        if not isinstance(row, dict) or "0" not in row:
            problems.append("row without key '0': %r" % (row,))
            continue
        rid = row["0"]
        if not isinstance(rid, str):
            problems.append("row id is %r, not a str" % (rid,))
        if rid in rows:
            problems.append("two rows for index %r" % (rid,))
        conv = {}
        for k, v in row.items():
            if not isinstance(k, str):
                problems.append("column key %r is not a str" % (k,))
            if k == "0":
                conv[k] = v
            else:
                conv[k] = v if py else to_tuple(v)
        rows[rid] = conv
    return rows, problems


def abort_fetch(w, table, entry, variant, bulk, n):
    """The transport times out on request n+1 of a table fetch (nothing is judged)."""
    w.seam.reset(budget=60)
    inner = w.seam.responder
    count = {"n": 0}

    def lossy(data):
        count["n"] += 1
        return None if count["n"] > n else inner(data)

    w.seam.responder = lossy
    try:
        try:
            if variant == "table":
                drive(w.client.table(OID(entry)))
            elif variant == "bulktable":
                drive(w.client.bulktable(OID(table), bulk_size=bulk))
            elif variant == "pytable":
                drive(w.py.table(oid_s(entry)))
            else:
                drive(w.py.bulktable(oid_s(table), bulk_size=bulk))
        except Exception:  # noqa: BLE001 - the Timeout IS the abort
            pass
    finally:
        w.seam.responder = inner
        w.seam.reset()


def run_one(R, level, table, entry, cells, db, variant, bulk, label, w=None):
    if w is None:
        w = World(level, db)
    else:
        # the SAME client fetches again: nothing may be carried over between fetches
        w.prime() if not w.seam.events else None
        w.seam.reset()
        R.mon["fetches_on_a_reused_client"] += 1
    w.seam.budget = 4 * (len(cells) + 2) + 12 + 2
    py = variant.startswith("py")
    try:
        if variant == "table":
            res = drive(w.client.table(OID(entry)))
        elif variant == "bulktable":
            res = drive(w.client.bulktable(OID(table), bulk_size=bulk))
        elif variant.startswith("tablify-"):
            # the documented helper used by hand: walk (or bulk-walk) the entry, then
            # tablify() the bindings - the base given as node count, as dotted OID, or in
            # the absolute spelling with a leading dot (accepted everywhere in the library)
            from puresnmp.util import tablify

            how = variant.split("-", 1)[1]
            vbs = drive_agen(w.client.bulkwalk([OID(entry)], bulk_size=bulk or 3) if how.startswith("bulk") else w.client.walk(OID(entry)), limit=len(db) * 3 + 50)
            if how.endswith("nodes"):
                res = tablify(vbs, num_base_nodes=len(entry))
            elif how.endswith("dotbase"):
                res = tablify(vbs, base_oid="." + oid_s(entry))
            else:
                res = tablify(vbs, base_oid=oid_s(entry))
        elif variant == "pytable":
            res = drive(w.py.table(oid_s(entry)))
        elif variant == "pybulktable":
            res = drive(w.py.bulktable(oid_s(table), bulk_size=bulk))
        else:
            raise ValueError(variant)
        outcome = "ok"
    except rig.BudgetExceeded:
        outcome, res = "budget", None
    except Exception as exc:  # noqa: BLE001
        outcome, res = exc, None
    case = {
        "level": level,
        "variant": variant,
        "bulk": bulk,
        "table": list(table),
        "db": wc.enc_db(db),
        "cells": [[c, list(i)] for (c, i) in sorted(cells)],
    }
    shape = (tuple(sorted({c for c, _ in cells})), tuple(sorted({i for _, i in cells})), len(cells))
    R.case(("c16", shape, variant, bulk, level), bool(cells), sample={"label": label, **case} if len(db) < 6 else None)
    R.mon["requests_seen_at_seam"] += len(w.seam.requests)
    R.mon["variant_" + variant] += 1
    if outcome == "budget":
        R.violation(case, "table fetch did not end within %d requests" % w.seam.budget)
        return None
    if outcome != "ok":
        if level == "v1" and type(outcome).__name__ == "NoSuchOID" and not any(k > tuple(entry) for k in db) and len(w.seam.requests) == 1:
            # SNMPv1, and NOTHING follows the entry in the agent's whole MIB: the agent can
            # only answer the very first GETNEXT with error-status noSuchName, and C08
            # states that an error-status surfaces as the documented exception.  Not a
            # matter of table assembly: not judged here.
            R.mon["v1_first_request_answered_nosuchname"] += 1
            return None
        R.violation(case, "table fetch raised %r against a conformant agent" % (outcome,))
        return None
    rows, problems = normalise(res, py)
    want = expected_rows(cells, py)
    if not problems and rows != want:
        missing = sorted(set(want) - set(rows))
        extra = sorted(set(rows) - set(want))
        diff = [k for k in want if k in rows and rows[k] != want[k]]
        problems.append(
            "rows differ: missing=%r extra=%r differing=%r (e.g. got %r want %r)"
            % (missing[:3], extra[:3], diff[:3], rows.get(diff[0]) if diff else None, want.get(diff[0]) if diff else None)
        )
    if problems:
        R.violation(case, "; ".join(problems)[:700])
        return None
    R.mon["tables_ok_exact"] += 1
    R.mon["cells_checked"] += len(cells)
    return rows


def run_error_fetch(R, level, table, entry, cells, db, variant, bulk, k, status, echo):
    """The agent answers request number k of the fetch with an error-status: a table must
    never come back with cells missing as if it were complete - the fetch raises."""
    from puresnmp.exc import ErrorResponse

    w = World(level, db)
    w.prime()
    w.seam.budget = 4 * (len(cells) + 2) + 14
    state = {"n": 0, "applied": False}

    def hook(req, resp):
        state["n"] += 1
        if state["n"] != k:
            return resp
        state["applied"] = True
        return {"type": 0xA2, "request_id": resp["request_id"], "error_status": status, "error_index": 0 if not echo else 1,
                "varbinds": [(o, ("null", None)) for o, _ in req["varbinds"]] if echo else []}

    w.agent.pdu_hook = hook
    try:
        if variant == "table":
            res = ("ok", drive(w.client.table(OID(entry))))
        else:
            res = ("ok", drive(w.client.bulktable(OID(table), bulk_size=bulk)))
    except rig.BudgetExceeded:
        res = ("budget", None)
    except Exception as exc:  # noqa: BLE001
        res = ("exc", exc)
    case = {"level": level, "variant": variant, "bulk": bulk, "table": list(table), "db": wc.enc_db(db), "cells": [[c, list(i)] for (c, i) in sorted(cells)], "error": [k, status, echo]}
    R.case(("c16-err", variant, bulk, level, k, status, echo, len(cells)), state["applied"])
    if not state["applied"]:
        return
    R.mon["fetches_with_an_error_answer"] += 1
    if res[0] == "exc" and isinstance(res[1], ErrorResponse):
        R.mon["error_during_fetch_raised"] += 1
        return
    if res[0] == "ok":
        rows, problems = normalise(res[1], False)
        if status == 2 and level == "v1" and not problems:
            return  # v1: noSuchName is how a walk ends
        if not problems and rows == expected_rows(cells, False):
            return  # everything was already there
        R.violation(case, "request %d of the fetch was answered with error-status %d, yet the fetch returned %d of %d rows as if complete" % (k, status, len(rows), len(expected_rows(cells, False))))
        return
    R.violation(case, "request %d of the fetch was answered with error-status %d: outcome %r" % (k, status, res[1] if res[0] == "exc" else res[0]))


def run(R):
    n = N_CASES[R.tier]
    for i in range(n):
        if not R.mine(i):
            continue
        if not R.time_left():
            break
        rng = R.rng(i)
        table, entry, cells, db = gen.gen_table(rng)
        db = {k: (wc.light_value(rng) if rng.random() < 0.7 else v) for k, v in db.items()}
        cells = {(c, idx): db[entry + (c,) + idx] for (c, idx) in cells}
        level = rig.LEVEL_CYCLE_V2[i % len(rig.LEVEL_CYCLE_V2)]
        base = run_one(R, level, table, entry, cells, db, "table", None, "gen")
        for j, bulk in enumerate(BULKS):
            if (i + j) % 2 and R.tier == "quick":
                continue
            got = run_one(R, level, table, entry, cells, db, "bulktable", bulk, "gen")
            if base is not None and got is not None:
                R.mon["variants_compared"] += 1
                if got != base:
                    R.violation({"table": list(table), "db": wc.enc_db(db), "bulk": bulk, "level": level, "variant": "bulktable", "cells": [[c, list(x)] for (c, x) in sorted(cells)]}, "table() and bulktable(%d) disagree" % bulk)
        if i % 4 == 2 or i < 8:
            for variant in ("tablify-nodes", "tablify-base", "tablify-dotbase", "tablify-bulk-dotbase"):
                run_one(R, level if level != "v1" or "bulk" not in variant else "v2c", table, entry, cells, db, variant, BULKS[i % 4] if "bulk" in variant else None, "gen")
                R.mon["tables_made_by_hand_with_tablify"] += 1
        if i % 3 == 0:
            run_one(R, level, table, entry, cells, db, "pytable", None, "gen")
            run_one(R, level, table, entry, cells, db, "pybulktable", BULKS[i % 4], "gen")
        if i % 6 == 2 and len(cells) >= 2:
            for variant, bulk in (("table", None), ("bulktable", BULKS[i % 2]), ("bulktable", 10)):
                for k in (1, 2, 3):
                    status, echo = ((1, False), (5, True), (5, False), (13, True))[(i + k) % 4]
                    run_error_fetch(R, level if level != "v1" else "v2c", table, entry, cells, db, variant, bulk, k, status, echo)
        if i % 4 == 1:
            # one client, several fetches in a row (incl. the same fetch twice)
            w = World(level, db)
            for variant, bulk in (("table", None), ("table", None), ("bulktable", BULKS[i % 4]), ("pytable", None), ("table", None), ("pybulktable", BULKS[(i + 1) % 4])):
                run_one(R, level, table, entry, cells, db, variant, bulk, "reuse", w=w)
            # a fetch that dies part-way (transport timeout on request n), then the
            # same fetch again on the same client: complete and exact
            for variant, bulk, n in (("table", None, 2), ("bulktable", 1, 2), ("pytable", None, 1), ("pybulktable", 3, 1)):
                abort_fetch(w, table, entry, variant, bulk, n)
                R.mon["fetches_aborted_midway"] += 1
                run_one(R, level, table, entry, cells, db, variant, bulk, "reuse", w=w)
    if R.shard == 1 % R.nshards:
        # index lengths that bring the instance OIDs to 126, 127 and 128 sub-identifiers
        # (128 is the SMI maximum), e.g. a table indexed by a long string; sub-identifier
        # values at the BER and 32-bit boundaries as index components
        table = (1, 3, 6, 1, 4, 1, 4242, 7)
        entry = table + (1,)
        cells = {}
        for total in (126, 127, 128):
            idx = (total - len(entry) - 1 - 1,) + tuple((i * 7) % 256 for i in range(total - len(entry) - 2))
            for col in (1, 2, 10):
                cells[(col, idx)] = ("int", total * 100 + col)
        for a in (0, 127, 128, 16383, 16384, 2**31 - 1, 2**31, 2**32 - 1):
            for col in (1, 2):
                cells[(col, (a, a))] = ("int", col)
        db = {entry + (c,) + r: v for (c, r), v in cells.items()}
        db[table[:-1] + (8, 1, 1, 1)] = ("int", 1)
        for level in ("v1", "v2c", "v3-sha1-priv"):
            base = run_one(R, level, table, entry, cells, db, "table", None, "long-index")
            run_one(R, level, table, entry, cells, db, "pytable", None, "long-index")
            if level != "v1":
                for bulk in BULKS:
                    got = run_one(R, level, table, entry, cells, db, "bulktable", bulk, "long-index")
                    if base is not None and got is not None and got != base:
                        R.violation({"table": list(table), "db": wc.enc_db(db), "bulk": bulk, "level": level, "variant": "bulktable", "cells": [[c, list(x)] for (c, x) in sorted(cells)]}, "table() and bulktable(%d) disagree" % bulk)
                run_one(R, level, table, entry, cells, db, "pybulktable", 3, "long-index")
            R.mon["long_index_tables"] += 1
    if R.shard == 2 % R.nshards:
        # cells whose OIDs collide in the low 32 bits of their (string) hash under this
        # interpreter's hash seed: both are cells of the table
        table = (1, 3, 6, 1, 4, 1, 4242, 8)
        entry = table + (1,)
        import zlib

        pairs = gen.colliding_oid_pairs(entry, bits=32)
        # the same for the stock 32-bit checksums somebody might use as a fingerprint
        pairs += gen.colliding_oid_pairs_fn(entry, zlib.crc32) + gen.colliding_oid_pairs_fn(entry, zlib.adler32, limit=20000)
        R.notes["hash_collision_pairs_found"] = len(pairs)
        if pairs:
            cells = {}
            for a, b in pairs:
                for o in (a, b):
                    cells[(o[len(entry)], o[len(entry) + 1:])] = ("int", o[-1])
            for col in (1, 2):
                for r in (1, 2, 3):
                    cells[(col, (r,))] = ("int", r)
            db = {entry + (c,) + r: v for (c, r), v in cells.items()}
            for variant, bulk in (("table", None), ("bulktable", 3), ("bulktable", 50)):
                run_one(R, "v2c", table, entry, cells, db, variant, bulk, "hash-collision")
            R.mon["hash_collision_tables"] += 1
    if R.shard == 0:
        # v1 speaks GETNEXT only: table() must work there too
        rng = R.rng("v1")
        for _ in range(10):
            table, entry, cells, db = gen.gen_table(rng)
            run_one(R, "v1", table, entry, cells, db, "table", None, "v1")


def replay(R, v):
    c = v["case"]
    db = wc.dec_db(c["db"])
    table = tuple(c["table"])
    entry = table + (1,)
    cells = {(col, tuple(idx)): db[entry + (col,) + tuple(idx)] for col, idx in c["cells"]}
    if c.get("error"):
        k, status, echo = c["error"]
        run_error_fetch(R, c["level"], table, entry, cells, db, c["variant"], c["bulk"], k, status, echo)
        R.evaluations += 1
        return
    run_one(R, c["level"], table, entry, cells, db, c["variant"], c["bulk"], "replay")
