"""
C17 - SNMP application types keep their numeric and conversion semantics:
Counter32/64 wrap and clamp, unsigned types decode non-negative, TimeTicks
<-> timedelta at one hundredth of a second without gaining or losing a tick,
IpAddress <-> IPv4Address, and every value survives encode/decode (through
x690 and through the independent codec).
"""

import datetime
import ipaddress

from .. import rig  # noqa: F401
from .. import ber, typecontracts
from . import trapview
from puresnmp.types import Counter, Counter64, Gauge, IpAddress, Opaque, TimeTicks
import x690
from x690.types import Integer, OctetString

PROP = "C17"
LEVEL = "exploration"
SHARDS = {"quick": 4, "thorough": 16}
TIME_CAP = {"quick": 50, "thorough": 900}
DENSE = {"quick": 2_000_000, "thorough": 1 << 26}
SAMPLES = {"quick": 60_000, "thorough": 2_000_000}
RULE = (
    "Dense sweep of the public constructors/converters: TimeTicks t -> pythonize -> TimeTicks "
    "for every t in 0..2*10^6 (quick) / 0..2^26 (thorough) plus samples up to 2^32-1 and every "
    "byte boundary, in both directions; timedeltas that are not multiples of 10 ms may floor "
    "or round; Counter/Counter64 for integers in and far outside the range (boundaries +-3, "
    "2^k +-1 up to 2^130, random); unsigned application types decoded from 1..8-octet contents "
    "with the high bit set (in-range values only: up to the type's width, plain and with the canonical leading zero octet); IpAddress at both ends, byte boundaries and samples; each value "
    "encoded by puresnmp and decoded by x690 AND by the independent codec, and encoded by the "
    "independent codec and decoded by puresnmp. Record-only contracts on the constructors run "
    "alongside. Non-trivial: every evaluation; distinct by (class, value)."
    " Every IpAddress whose four octets read as text (digits, hex letters, colon, dot, blank:"
    " 390625 addresses) is decoded and re-encoded."
    " Four threads convert and decode at once under yield injection; ten lazily decoded value"
    "s are read at every stack depth from 120 frames below the recursion limit up to it (righ"
    "t value or RecursionError)."
    " 9000 (thorough 60000) distinct addresses / tick values with re-reads 1000..5000 values "
    "later and in a second round."
    ' TrapInfo.uptime at and around every power of two. Copies (copy / deepcopy / pickle) of '
    'received and built values convert and encode like the original. Boundary values of every'
    ' type through client and wrapper operations, also after an SNMPv1 noSuchName, a v1 walk '
    'off the end of the MIB, an error-status and an undecodable response.'
)
ASSUMPTIONS = [
    "TimeTicks are hundredths of a second (RFC 2578 7.1.8); a timedelta that is not a multiple of 10 ms may be floored or rounded",
    "Counter semantics per the statement: wrap modulo 2^32/2^64, negative clamped to zero",
]
REQUIRED_MONITORS = ("timeticks_roundtrip", "counter_checked", "unsigned_decode_checked", "ip_checked", "codec_roundtrip")

TICK = datetime.timedelta(milliseconds=10)
KIND = {Counter: "c32", Gauge: "g32", TimeTicks: "tt", Counter64: "c64", IpAddress: "ip", Opaque: "opaque"}


def check_tick(R, t):
    """Both conversion directions for one tick value; returns True when exact."""
    td = TimeTicks(t).pythonize()
    ok = True
    if td != t * TICK or type(td) is not datetime.timedelta:
        R.violation({"kind": "tt-pythonize", "t": t}, "TimeTicks(%d).pythonize() == %r, expected %r" % (t, td, t * TICK), None)
        ok = False
    back = TimeTicks(t * TICK).value
    if back != t:
        R.violation({"kind": "tt-from-timedelta", "t": t}, "TimeTicks(timedelta(milliseconds=%d)).value == %r: a tick was %s" % (10 * t, back, "lost" if back < t else "gained"), "timeticks-float-truncation")
        ok = False
    return ok


def check_offgrid(R, t, micro):
    td = t * TICK + datetime.timedelta(microseconds=micro)
    obj = TimeTicks(td)
    got = obj.value
    if got not in (t, t + 1):
        R.violation({"kind": "tt-offgrid", "t": t, "micro": micro}, "TimeTicks(%r).value == %r, expected %d or %d" % (td, got, t, t + 1), None)
        return
    # whichever way it rounds: converting back must give the ticks it holds (and encodes)
    back = obj.pythonize()
    if back != got * TICK:
        R.violation({"kind": "tt-offgrid", "t": t, "micro": micro}, "TimeTicks(%r) holds %d ticks but pythonizes to %r" % (td, got, back), None)


def check_counter(R, cls, bits, n):
    try:
        v = cls(n).value
    except Exception as exc:  # noqa: BLE001
        R.violation({"kind": "counter", "cls": cls.__name__, "n": n}, "%s(%d) raised %r" % (cls.__name__, n, exc), None)
        return
    want = max(n, 0) % (1 << bits)
    if v != want or not 0 <= v < (1 << bits):
        R.violation({"kind": "counter", "cls": cls.__name__, "n": n}, "%s(%d).value == %r, expected %d" % (cls.__name__, n, v, want), None)
        return
    R.mon["counter_checked"] += 1


def check_codec(R, obj, kindval):
    """puresnmp -> bytes -> x690 / independent; independent -> bytes -> puresnmp."""
    case = {"kind": "codec", "cls": type(obj).__name__, "value": rig.jsonable(kindval[1])}
    raw = bytes(obj)
    back, nxt = x690.decode(raw)
    if type(back) is not type(obj) or rig.to_tuple(back) != kindval or nxt != len(raw):
        R.violation(case, "x690 round trip of %r gave %r" % (obj, back), None)
        return
    try:
        tag, cs, ce = ber.read_tlv(raw, 0, len(raw))
        ind = ber.dec_value(tag, raw[cs:ce])
    except ber.BerError as exc:
        R.violation(case, "independent decoder refuses %s: %s" % (raw.hex(), exc), None)
        return
    if ind != kindval or ce != len(raw):
        R.violation(case, "independent decoder reads %r from %s, value was %r" % (ind, raw.hex(), kindval), None)
        return
    raw2 = ber.enc_value(kindval)
    back2, _ = x690.decode(raw2)
    if type(back2) is not type(obj) or rig.to_tuple(back2) != kindval:
        R.violation(case, "puresnmp decodes %s (independent encoding of %r) as %r" % (raw2.hex(), kindval, back2), None)
        return
    R.mon["codec_roundtrip"] += 1


def check_unsigned_decode(R, tag, kind, cls, content):
    # history: the same content octets decoded as a SIGNED application type first
    # (NsapAddress, tag 0x45) must not influence how the unsigned types read them
    try:
        x690.decode(bytes([0x45, len(content)]) + content)[0].value
        x690.decode(bytes([0x02, len(content)]) + content)[0].value
    except Exception:  # noqa: BLE001
        pass
    raw = bytes([tag, len(content)]) + content
    want = int.from_bytes(content, "big", signed=False)
    try:
        obj, _ = x690.decode(raw)
        value = obj.value
    except Exception as exc:  # noqa: BLE001
        R.violation({"kind": "unsigned-decode", "raw": raw.hex()}, "decoding %s (an in-range %s) raised %r" % (raw.hex(), cls.__name__, exc), None)
        return
    if type(obj) is not cls or value != want or value < 0:
        R.violation({"kind": "unsigned-decode", "raw": raw.hex()}, "%s decoded as %r, expected non-negative %d" % (raw.hex(), obj, want), None)
        return
    R.mon["unsigned_decode_checked"] += 1


def check_ip(R, n):
    addr = ipaddress.IPv4Address(n)
    obj = IpAddress(addr)
    packed = n.to_bytes(4, "big")
    if obj.encode_raw() != packed or IpAddress.decode_raw(packed) != addr or obj.pythonize() != addr or type(obj.pythonize()) is not ipaddress.IPv4Address:
        R.violation({"kind": "ip", "n": n}, "IpAddress conversion of %s is off" % addr, None)
        return
    R.mon["ip_checked"] += 1
    check_codec(R, obj, ("ip", packed))


def long_run(R):
    """One process converts tens of thousands of DISTINCT values and then sees earlier
    ones again (a poller re-reading a large, slowly changing table): whatever the library
    remembers between calls - and forgets when a limit is reached - must not change what
    a value converts to."""
    n = 9000 if R.tier == "quick" else 60000
    addrs = [(i * 2654435761 + 12345) % 2**32 for i in range(n)]
    ticks = [(i * 40503 + 7) % 2**32 for i in range(n)]
    # every value is read again 1, 2, 3, ... thousand values later as well as in the next
    # round (a limit that is a power of two evicts in such strides)
    order = []
    for i in range(n):
        order.append(i)
        for back in (1000, 1024, 2048, 3072, 3073, 4096, 5000):
            if i >= back:
                order.append(i - back)
    for rnd in range(2):
        for i in order:
            a = addrs[i]
            packed = a.to_bytes(4, "big")
            got = IpAddress.decode_raw(packed)
            got2 = x690.decode(b"\x40\x04" + packed)[0].value
            if got != ipaddress.IPv4Address(a) or type(got) is not ipaddress.IPv4Address or got2 != got:
                got = (got, got2)
                R.violation({"kind": "long-run", "what": "ip", "i": i, "round": rnd}, "address number %d of %d, seen for the %s time: %r decodes to %r" % (i, n, ("first round", "second round")[rnd], packed, got), None)
                return
            t = ticks[i]
            if TimeTicks(t).pythonize() != t * TICK or Counter(t + 2**32).value != t or x690.decode(bytes([0x41, 5, 0]) + t.to_bytes(4, "big"))[0].value != t:
                R.violation({"kind": "long-run", "what": "ticks", "i": i, "round": rnd}, "value number %d of %d (round %d): %d converts wrongly" % (i, n, rnd, t), None)
                return
        R.evaluations += len(order)
    R.mon["long_run_values"] += 2 * len(order)


def deep_stack(R):
    """Values are decoded lazily, i.e. on the CALLER's stack: read at every depth close to
    the interpreter's recursion limit a value comes out right or the read raises
    RecursionError - never something else (a swallowed RecursionError turning into a
    fallback value)."""
    import sys

    samples = [
        (bytes([0x40, 4, 192, 0, 2, 1]), lambda o: o.pythonize(), ipaddress.IPv4Address("192.0.2.1")),
        (bytes([0x40, 4, 192, 0, 2, 1]), lambda o: o.value, ipaddress.IPv4Address("192.0.2.1")),
        (bytes([0x43, 3, 0x01, 0x51, 0x80]), lambda o: o.pythonize(), 86400 * TICK),
        (bytes([0x43, 3, 0x01, 0x51, 0x80]), lambda o: o.value, 86400),
        (bytes([0x41, 5, 0, 0xFF, 0xFF, 0xFF, 0xFF]), lambda o: o.value, 2**32 - 1),
        (bytes([0x42, 1, 0x7F]), lambda o: o.pythonize(), 127),
        (bytes([0x46, 9, 0] + [0xFF] * 8), lambda o: o.value, 2**64 - 1),
        (bytes([0x02, 2, 0xFF, 0x7F]), lambda o: o.pythonize(), -129),
        (bytes([0x04, 3]) + b"abc", lambda o: o.pythonize(), b"abc"),
        (bytes([0x06, 3, 0x2B, 0x06, 0x01]), lambda o: str(o.pythonize()), "1.3.6.1"),
    ]

    def at_depth(n, fn):
        if n <= 0:
            return fn()
        return at_depth(n - 1, fn)

    limit = sys.getrecursionlimit()
    for raw, read, want in samples:
        for n in range(limit - 120, limit + 2):
            def probe(raw=raw, read=read):
                return read(x690.decode(raw)[0])
            try:
                got = at_depth(n, probe)
            except RecursionError:
                R.mon["deep_reads_recursion_error"] += 1
                continue
            except Exception as exc:  # noqa: BLE001
                R.violation({"kind": "deep-stack", "raw": raw.hex(), "depth": n}, "reading %s %d frames deep raised %r (neither the value nor RecursionError)" % (raw.hex(), n, exc), None)
                return
            R.evaluations += 1
            if got != want or type(got) is not type(want):
                R.violation({"kind": "deep-stack", "raw": raw.hex(), "depth": n}, "reading %s %d frames deep (recursion limit %d) gave %r, expected %r" % (raw.hex(), n, limit, got, want), None)
                return
            R.mon["deep_reads_ok"] += 1


def thread_stress(R):
    """Four OS threads convert values at the same time (each its own values), with thread
    switches forced between the statements of the library: every conversion still gives
    what it gives single-threaded."""
    from .. import threads

    jobs = []
    for ti in range(4):
        mine = []
        for j in range(300):
            t = (ti * 1000003 + j * 7919) % 2**32 if j % 5 else (0, 1, 2**31, 2**32 - 1, 4242)[(j // 5 + ti) % 5]
            mine.append((lambda t=t: TimeTicks(t).pythonize(), t * TICK))
            mine.append((lambda t=t: TimeTicks(t * TICK).value, t))
            n = t * (2**33 + 1) - 5 * ti
            mine.append((lambda n=n: Counter(n).value, max(n, 0) % 2**32))
            mine.append((lambda n=n: Counter64(n).value, max(n, 0) % 2**64))
            a = ipaddress.IPv4Address(t)
            mine.append((lambda a=a: IpAddress(a).pythonize(), a))
            raw = bytes([0x43, 4]) + (t | 2**31).to_bytes(4, "big")
            mine.append((lambda raw=raw: x690.decode(raw)[0].value, t | 2**31))
        jobs.append(mine)
    bad, stats = threads.run(jobs, rounds=2)
    R.notes["thread_stress"] = stats
    R.mon["thread_stress_calls"] += stats["calls"]
    R.evaluations += stats["calls"]
    if stats["hung_threads"]:
        R.inconclusive("thread stress: %d threads did not finish" % stats["hung_threads"])
        return
    for ti, ji, got, want in bad[:3]:
        R.violation({"kind": "threads", "thread": ti, "job": ji}, "under concurrent use from 4 threads a conversion gave %r, single-threaded it gives %r" % (got, want), None)
    if not bad:
        R.mon["thread_stress_ok"] += 1


def interesting_ints(rng, extra=()):
    out = set(extra)
    for k in list(range(0, 70)) + [96, 127, 128, 129, 130]:
        for d in (-2, -1, 0, 1, 2):
            out.add((1 << k) + d)
            out.add(-(1 << k) + d)
    for _ in range(300):
        out.add(rng.randint(-(2**70), 2**70))
        out.add(rng.randint(-5, 2**33))
    return sorted(out)


def run(R):
    contracts = typecontracts.attach_all()
    dense = DENSE[R.tier]
    # ---- TimeTicks, dense prefix (sharded by block) ------------------------
    block = 4096
    for b in range(0, dense, block):
        if not R.mine(b // block):
            continue
        if not R.time_left():
            break
        bad = 0
        for t in range(b, min(b + block, dense)):
            if not check_tick(R, t):
                bad += 1
        R.evaluations += min(b + block, dense) - b
        R.mon["timeticks_roundtrip"] += min(b + block, dense) - b - bad
        R.fingerprints.add("tt-block-%d" % b)
    R.notes["timeticks_dense_prefix"] = dense
    rng = R.rng("samples")
    # ---- TimeTicks, boundaries and samples above the prefix ----------------
    pts = set()
    for k in range(8, 33):
        for d in (-2, -1, 0, 1):
            pts.add(max(0, min((1 << k) + d, 2**32 - 1)))
    pts.update((2**32 - 1, 2**32 - 2, 8640000, 8639999, 360000, 100, 99, 101))
    for _ in range(SAMPLES[R.tier]):
        pts.add(rng.randint(0, 2**32 - 1))
    for j, t in enumerate(sorted(pts)):
        if not R.mine(j):
            continue
        if check_tick(R, t):
            R.mon["timeticks_roundtrip"] += 1
        R.case(("tt", t), True, sample={"kind": "tt", "t": t, "timedelta": str(t * TICK)} if j % 5000 == 17 else None)
        if j % 7 == 0:
            check_offgrid(R, t, rng.choice((1, 4999, 5000, 5001, 9999)))
            R.mon["timeticks_offgrid_checked"] += 1
        if j % 50 == 0:
            check_codec(R, TimeTicks(t), ("tt", t))
    # ---- Counters -------------------------------------------------------------
    ints = interesting_ints(rng)
    for j, n in enumerate(ints):
        if not R.mine(j):
            continue
        check_counter(R, Counter, 32, n)
        check_counter(R, Counter64, 64, n)
        R.case(("counter", n), True, sample={"kind": "counter", "n": n, "c32": Counter(n).value, "c64": Counter64(n).value} if j % 300 == 5 else None)
        if 0 <= n < 2**32:
            check_codec(R, Counter(n), ("c32", n))
            check_codec(R, Gauge(n), ("g32", n))
        if 0 <= n < 2**64:
            check_codec(R, Counter64(n), ("c64", n))
        if -(2**63) <= n < 2**63:
            check_codec(R, Integer(n), ("int", n))
    # ---- unsigned decoding from 1..9 octets with the high bit set -----------
    if R.shard == 0:
        for tag, kind, cls in ((0x41, "c32", Counter), (0x42, "g32", Gauge), (0x43, "tt", TimeTicks), (0x46, "c64", Counter64)):
            width = 8 if kind == "c64" else 4
            # values WITHIN the type's range only: up to `width` octets with the high bit
            # set (the style of the devices of issue #75) and the canonical form with a
            # leading zero octet
            for nbytes in range(1, width + 1):
                for lead in (0x80, 0xFF, 0xC3):
                    content = bytes([lead]) + bytes(rng.getrandbits(8) for _ in range(nbytes - 1))
                    check_unsigned_decode(R, tag, kind, cls, content)
                    check_unsigned_decode(R, tag, kind, cls, b"\x00" + content)
                    R.case(("unsigned", tag, content.hex()), True)
        for n in (0, 1, 5, 127, 128, 300):
            data = bytes(rng.getrandbits(8) for _ in range(n))
            check_codec(R, Opaque(data), ("opaque", data))
            check_codec(R, OctetString(data), ("str", data))
            R.case(("octets", n), True)
    # ---- IpAddress -----------------------------------------------------------
    ips = {0, 1, 255, 256, 2**16 - 1, 2**16, 2**24 - 1, 2**24, 2**31 - 1, 2**31, 2**32 - 2, 2**32 - 1, 0xC0000201, 0x7F000001}
    for _ in range(SAMPLES[R.tier] // 10):
        ips.add(rng.randint(0, 2**32 - 1))
    for j, n in enumerate(sorted(ips)):
        if not R.mine(j):
            continue
        check_ip(R, n)
        R.case(("ip", n), True, sample={"kind": "ip", "addr": str(ipaddress.IPv4Address(n))} if j % 700 == 3 else None)
    # every address whose four octets read as text (digits, hex letters, ':', '.', ' '):
    # octets are octets, whatever they spell ("::12", "1::2", "ab::", "1.2.", "12  ")
    alphabet = b"0123456789abcdefABCDEF:. "
    j = 0
    for a in alphabet:
        for b in alphabet:
            j += 1
            if not R.mine(j):
                continue
            for c in alphabet:
                for d in alphabet:
                    packed = bytes((a, b, c, d))
                    addr = ipaddress.IPv4Address(packed)
                    got = IpAddress.decode_raw(packed)
                    if got != addr or type(got) is not ipaddress.IPv4Address or IpAddress(got).encode_raw() != packed:
                        R.violation({"kind": "ip", "n": int(addr)}, "IpAddress octets %r (text-like) decode to %r, expected %s" % (packed, got, addr), None)
                        break
                else:
                    continue
                break
            R.mon["ip_textlike_checked"] += len(alphabet) ** 2
            R.evaluations += len(alphabet) ** 2
    if R.shard == 0:
        trap_uptimes(R)
        copies(R)
    if R.shard == 1 % R.nshards:
        through_the_client(R)
    if R.shard == 1 % R.nshards:
        thread_stress(R)
    if R.shard == 2 % R.nshards:
        deep_stack(R)
    if R.shard == 3 % R.nshards:
        long_run(R)
    # ---- contracts ------------------------------------------------------------
    breaches = sum(len(c.breaches) for c in contracts)
    typecontracts.report(R, contracts, decide=False)
    if breaches and not R.n_violations and not R.known:
        R.inconclusive("type contracts recorded %d breaches the direct oracle did not see" % breaches)
    for c in contracts:
        c.detach()


def trap_uptimes(R):
    """sysUpTime of a received notification as TrapInfo.uptime shows it: the same TimeTicks
    conversion, over the whole range (the upper half of it included)."""
    pts = set()
    for k in range(0, 33):
        for d in (-1, 0, 1):
            pts.add(max(0, min((1 << k) + d, 2**32 - 1)))
    rng = R.rng("trap-uptimes")
    pts.update(rng.randint(0, 2**32 - 1) for _ in range(120))
    for t in sorted(pts):
        vbs = [(trapview.UPTIME, ("tt", t)), (trapview.TRAPOID, ("oid", (1, 3, 6, 1, 4, 1, 4242, 0, 1))), ((1, 3, 6, 1, 4, 1, 4242, 2, 1), ("tt", 2**32 - 1 - t)), ((1, 3, 6, 1, 4, 1, 4242, 2, 2), ("c32", t))]
        trapview.judge(R, vbs, "trap_uptimes_checked")
    R.fingerprints.add("trap-uptimes")


def copies(R):
    """A value that was received (decoded lazily) or built locally is an ordinary Python
    object: a copy, a deep copy and an unpickled copy (a result handed to a worker process,
    kept in a cache) convert exactly like the original.  A copy operation that refuses is
    not judged; one that succeeds and converts differently is."""
    import copy
    import pickle

    rng = R.rng("copies")
    cases = []
    for tag, cls, width in ((0x43, TimeTicks, 32), (0x41, Counter, 32), (0x42, Gauge, 32), (0x46, Counter64, 64)):
        pts = {0, 1, 99, 100, 2**31 - 1, 2**31, 2**width - 1} | {rng.randint(0, 2**width - 1) for _ in range(12)}
        for n in sorted(pts):
            cases.append((cls, ber.tlv(tag, ber.enc_int_content(n)), n))
    for n in (0, 1, 0x7F000001, 2**32 - 1, rng.randint(0, 2**32 - 1)):
        cases.append((IpAddress, ber.tlv(0x40, n.to_bytes(4, "big")), n))
    for body in (b"", b"\x00", b"opaque-content"):
        cases.append((Opaque, ber.tlv(0x44, body), body))
    ways = (("copy", copy.copy), ("deepcopy", copy.deepcopy), ("pickle", lambda x: pickle.loads(pickle.dumps(x))), ("pickle-0", lambda x: pickle.loads(pickle.dumps(x, 0))))
    for cls, raw, n in cases:
        try:
            received, _ = x690.decode(raw)
            built = cls(received.value)
            originals = (("received", received), ("built", built))
            want = [(type(o), o.pythonize(), bytes(o)) for _, o in originals]
        except Exception as exc:  # noqa: BLE001
            R.violation({"kind": "copies"}, "%s %r could not be decoded/converted: %r" % (cls.__name__, raw, exc), None)
            return
        for (how, obj), w in zip(originals, want):
            for name, fn in ways:
                R.evaluations += 1
                try:
                    dup = fn(obj)
                except Exception:  # noqa: BLE001 - refusing to be copied is not a wrong value
                    R.mon["copies_refused"] += 1
                    continue
                try:
                    got = (type(dup), dup.pythonize(), bytes(dup))
                except Exception as exc:  # noqa: BLE001
                    got = ("raised", repr(exc))
                if got != w or not (dup == obj):
                    R.violation({"kind": "copies"}, "%s of a %s %s (%r) converts to %r, the original to %r" % (name, how, cls.__name__, n, got, w), None)
                    return
                R.mon["copies_convert_alike"] += 1
    R.fingerprints.add("copies")


TYPED = {
    (1, 3, 6, 1, 4, 1, 4242, 7, 1, 0): ("tt", 0), (1, 3, 6, 1, 4, 1, 4242, 7, 2, 0): ("tt", 1), (1, 3, 6, 1, 4, 1, 4242, 7, 3, 0): ("tt", 2**31), (1, 3, 6, 1, 4, 1, 4242, 7, 4, 0): ("tt", 2**32 - 1),
    (1, 3, 6, 1, 4, 1, 4242, 7, 5, 0): ("c32", 2**32 - 1), (1, 3, 6, 1, 4, 1, 4242, 7, 6, 0): ("g32", 2**31), (1, 3, 6, 1, 4, 1, 4242, 7, 7, 0): ("c64", 2**40 + 17),
    (1, 3, 6, 1, 4, 1, 4242, 7, 8, 0): ("c64", 2**64 - 1), (1, 3, 6, 1, 4, 1, 4242, 7, 9, 0): ("ip", bytes([192, 0, 2, 255])), (1, 3, 6, 1, 4, 1, 4242, 7, 10, 0): ("c64", 0),
}


def through_the_client(R):
    """The same conversions where a caller meets them: every client and wrapper operation
    hands out these values with the type sent (raw) resp. the documented Python value
    (wrapper) - also on a process that has just seen failures (an SNMPv1 noSuchName, a
    v1 walk running off the end of the MIB, an error-status, an undecodable response)."""
    from ..rig import OID, World, drive, drive_agen, oid_s, oid_t, to_tuple

    keys = sorted(TYPED)
    root = keys[0][:-2]
    want_raw = [(k, TYPED[k]) for k in keys]
    want_py = [(oid_s(k), rig.pythonized(TYPED[k])) for k in keys]

    def sweep(label):
        for level in ("v2c", "v3-md5"):
            w = World(level, dict(TYPED))
            w.seam.budget = 200
            views = {
                "multiget": lambda: [(k, to_tuple(v)) for k, v in zip(keys, drive(w.client.multiget([OID(k) for k in keys])))],
                "walk": lambda: [(oid_t(vb.oid), to_tuple(vb.value)) for vb in drive_agen(w.client.walk(OID(root)), limit=50)],
                "bulkwalk": lambda: [(oid_t(vb.oid), to_tuple(vb.value)) for vb in drive_agen(w.client.bulkwalk([OID(root)], bulk_size=4), limit=50)],
            }
            pyviews = {
                "py.multiget": lambda: list(zip([oid_s(k) for k in keys], drive(w.py.multiget([oid_s(k) for k in keys])))),
                "py.walk": lambda: [(vb.oid, vb.value) for vb in drive_agen(w.py.walk(oid_s(root)), limit=50)],
                "py.bulkwalk": lambda: [(vb.oid, vb.value) for vb in drive_agen(w.py.bulkwalk([oid_s(root)], bulk_size=4), limit=50)],
                "py.get": lambda: [(oid_s(k), drive(w.py.get(oid_s(k)))) for k in keys],
                "py.bulkget": lambda: list(drive(w.py.bulkget([], [oid_s(root)], max_list_size=len(keys))).listing.items()),
            }
            for name, fn in list(views.items()) + list(pyviews.items()):
                R.evaluations += 1
                want = want_py if name.startswith("py.") else want_raw
                try:
                    got = fn()
                except Exception as exc:  # noqa: BLE001
                    got = "raised %r" % (exc,)
                if got != want or (name.startswith("py.") and [type(v) for _, v in got] != [type(v) for _, v in want]):
                    diff = next(((g, x) for g, x in zip(got, want) if g != x or type(g[1]) is not type(x[1])), (str(got)[:200], "")) if isinstance(got, list) else (got, "")
                    R.violation({"kind": "through-the-client", "label": label}, "%s (%s, %s): %r, the agent sent %r" % (name, level, label, diff[0], diff[1]), None)
                    return False
                R.mon["values_through_client_and_wrapper_ok"] += 1
        return True

    if not sweep("fresh process"):
        return
    # failures, each followed by the whole sweep
    def v1_missing():
        w = World("v1", dict(TYPED))
        drive(w.client.get(OID((1, 3, 6, 1, 4, 1, 4242, 99, 0))))

    def v1_walk_off_the_end():
        w = World("v1", {k: v for k, v in TYPED.items() if v[0] != "c64"})
        drive_agen(w.client.walk(OID(root)), limit=50)

    def v2_error():
        w = World("v2c", dict(TYPED))
        w.agent.pdu_hook = lambda req, resp: dict(resp, error_status=5, error_index=1)
        drive(w.client.get(OID(keys[0])))

    def garbage():
        w = World("v2c", dict(TYPED))
        w.set_responder(lambda data: b"\x30\x05\x02\x01\x01\x04\x00")
        drive(w.client.get(OID(keys[0])))

    for label, fail in (("after an SNMPv1 noSuchName", v1_missing), ("after an SNMPv1 walk ran off the end of the MIB", v1_walk_off_the_end), ("after an error-status", v2_error), ("after an undecodable response", garbage)):
        try:
            fail()
        except Exception:  # noqa: BLE001 - arranged
            pass
        if not sweep(label):
            return
        R.mon["sweeps_after_a_failure"] += 1
    R.fingerprints.add("through-the-client")


def replay(R, v):
    c = v["case"]
    k = c.get("kind")
    if k == "through-the-client":
        through_the_client(R)
        return
    if k == "copies":
        copies(R)
        return
    if k == "trapview":
        trapview.judge(R, trapview.vbs_of(c), "trap_uptimes_checked")
        return
    if k in ("tt-pythonize", "tt-from-timedelta"):
        check_tick(R, c["t"])
    elif k == "tt-offgrid":
        check_offgrid(R, c["t"], c["micro"])
    elif k == "counter":
        check_counter(R, Counter if c["cls"] == "Counter" else Counter64, 32 if c["cls"] == "Counter" else 64, c["n"])
    elif k == "ip":
        check_ip(R, c["n"])
    elif k == "threads":
        thread_stress(R)
    elif k == "deep-stack":
        deep_stack(R)
    elif k == "long-run":
        long_run(R)
    elif k == "unsigned-decode":
        raw = bytes.fromhex(c["raw"])
        cls = {0x41: Counter, 0x42: Gauge, 0x43: TimeTicks, 0x46: Counter64}[raw[0]]
        check_unsigned_decode(R, raw[0], None, cls, raw[2:])
    R.evaluations += 1
