"""
C18 - temporary reconfiguration applies inside its block and is undone
exactly; permanent reconfiguration persists; unknown settings are refused
without changing anything; switching the credential family switches the
protocol version spoken.

Reference model: a stack of configuration dicts.  Monitors at the seam.
"""

from .. import rig  # noqa: F401
from .. import agent as agent_mod
from .. import ber
from ..rig import OID, Seam, drive
from puresnmp import V1, V2C, V3, Auth, Client, Priv
from puresnmp.api.raw import Context

PROP = "C18"
LEVEL = "exploration"
SHARDS = {"quick": 4, "thorough": 16}
TIME_CAP = {"quick": 50, "thorough": 600}
N_CASES = {"quick": 1500, "thorough": 80000}
RULE = (
    "Random properly nested histories (depth <= 4, 5..40 steps) over {configure(**kw), "
    "reconfigure(**kw) enter, exit normally, exit by exception, request, configure/"
    "reconfigure with an unknown setting; a walk started inside a block (first request there) "
    "and finished after the block was left (remaining requests must use the restored "
    "timeout/retries/context)} with kw drawn from timeout, retries, credentials "
    "(same family, other family: V1, V2C x2, V3 noAuth/auth/authPriv users) and context "
    "(engine id, name). Reference model: a stack of configuration dicts. Monitors at the seam "
    "for EVERY request (incl. discovery probes): the sender's timeout/retries arguments and "
    "the datagram's version, community | user + security level, contextEngineID and "
    "contextName equal the model's current configuration; after each block exit "
    "client.config equals the model's restored snapshot; unknown settings raise and change "
    "nothing. Distinct by history shape (step kinds + setting names + nesting)."
    " Context engine ids / names also of zero octets only, with a leading zero octet, of ASCI"
    "I digits."
    " Blocks are left by an ordinary exception, a BaseException subclass and asyncio.Cancelle"
    "dError in turn; \"reboot\" steps make the next authenticated request go out twice (report,"
    " re-send), both under the current settings."
    " Step \"prepared\": two reconfigure() objects created up front, a permanent configure(), t"
    "hen both entered nested."
    " 320 reconfigure() blocks on one client, two thirds left by an exception."
)
ASSUMPTIONS = [
    "a configure() inside a reconfigure() block is undone when the block exits (the block restores the snapshot taken at entry)",
    "the responder accepts any community so that every configuration can be exercised against one agent",
]
REQUIRED_MONITORS = ("requests_checked", "block_exits_checked", "exception_exits_checked", "unknown_setting_refused", "family_switches_seen", "straddling_walks_checked")

DB = {(1, 3, 6, 1, 2, 1, 1, 1, 0): ("str", b"x")}
for _i in range(1, 5):
    DB[(1, 3, 6, 1, 2, 1, 7, _i, 0)] = ("int", _i)
WALK_ROOT = (1, 3, 6, 1, 2, 1, 7)
USERS = [
    agent_mod.User(b"u1"),
    agent_mod.User(b"u2", ("md5", b"u2-auth-password")),
    agent_mod.User(b"u3", ("sha1", b"u3-auth-password"), ("vfstream8", b"u3-priv-password")),
]
CREDS = {
    "v1:c1": lambda: V1("c1"),
    "v1:c2": lambda: V1("c2"),  # the SAME community string as v2c:c2
    "v2c:c2": lambda: V2C("c2"),
    "v2c:c3": lambda: V2C("c3"),
    "v3:u1": lambda: V3("u1"),
    "v3:u2": lambda: V3("u2", Auth(b"u2-auth-password", "md5")),
    "v3:u3": lambda: V3("u3", Auth(b"u3-auth-password", "sha1"), Priv(b"u3-priv-password", "vfstream8")),
}
CRED_NAMES = sorted(CREDS)
LEVEL_OF = {"v3:u1": 0, "v3:u2": 1, "v3:u3": 3}
CONTEXTS = [(b"", b""), (b"", b"ctxA"), (b"\x80\x00\x00\x01\x05", b""), (b"\x80\x00\x00\x01\x06zz", b"ctxB"),
            # engine ids / names made of zero octets only, or starting with one ("falsy-looking")
            (b"\x00", b""), (bytes(5), b"\x00"), (bytes(12), b"x"), (b"\x00\x80\x00\x01\x07", b"0"), (b"0", b" ")]


class Boom(Exception):
    pass


class BoomBase(BaseException):
    """Leaves a block the way KeyboardInterrupt / GeneratorExit would."""


import asyncio as _asyncio

EXITS = (Boom, BoomBase, _asyncio.CancelledError)


def gen_kwargs(rng):
    kw = {}
    names = rng.sample(("timeout", "retries", "credentials", "context"), rng.randint(1, 3))
    for n in names:
        if n == "timeout":
            kw[n] = rng.choice((0, 1, 2, 6, 30, 0.5))
        elif n == "retries":
            kw[n] = rng.choice((0, 1, 3, 10, 25))
        elif n == "credentials":
            kw[n] = rng.choice(CRED_NAMES)
        else:
            kw[n] = rng.randrange(len(CONTEXTS))
    return kw


def gen_block(rng, depth, budget):
    steps = []
    n = rng.randint(2, 8)
    for _ in range(n):
        if budget[0] <= 0:
            break
        budget[0] -= 1
        r = rng.random()
        if r < 0.36:
            steps.append(("request",))
        elif r < 0.39:
            # the device reboots: the next authenticated request is answered by a
            # notInTimeWindow report first and sent again
            steps.append(("reboot",))
        elif r < 0.43:
            steps.append(("prepared", gen_kwargs(rng), gen_kwargs(rng), gen_kwargs(rng)))
        elif r < 0.55:
            steps.append(("configure", gen_kwargs(rng)))
        elif r < 0.65:
            steps.append(("unknown", rng.choice(("configure", "reconfigure")), gen_kwargs(rng)))
        elif depth < 4:
            inner = gen_block(rng, depth + 1, budget)
            # straddle: a walk is started inside the block (first request there) and
            # finished after the block has been left
            steps.append(("block", gen_kwargs(rng), inner, rng.random() < 0.3, rng.random() < 0.3))
        else:
            steps.append(("request",))
    return steps


def shape(steps):
    out = []
    for s in steps:
        if s[0] == "block":
            out.append(("block", tuple(sorted(s[1])), shape(s[2]), s[3], len(s) > 4 and s[4]))
        elif s[0] == "configure":
            out.append(("configure", tuple(sorted(s[1]))))
        elif s[0] == "unknown":
            out.append(("unknown", s[1]))
        elif s[0] == "prepared":
            out.append(("prepared", tuple(sorted(s[1])), tuple(sorted(s[2])), tuple(sorted(s[3]))))
        else:
            out.append(s[0])
    return tuple(out)


class Harness:
    def __init__(self, R, case):
        self.R = R
        self.case = case
        self.agent = agent_mod.Agent(DB, users=USERS, any_context=True, clock=rig.env.CLOCK)
        self.seam = Seam(self.responder)
        self.seam.budget = 400
        self.model = [{"credentials": "v2c:c2", "context": 0, "timeout": 6, "retries": 10}]
        self.client = Client("192.0.2.1", CREDS["v2c:c2"](), sender=self.seam)
        self.failed = False
        self.checked_events = 0

    def responder(self, data):
        try:
            m = ber.decode_message(data)
            if m["version"] in (0, 1):
                self.agent.community = m["community"]
        except ber.BerError:
            pass
        return self.agent.handle(data)

    def cur(self):
        return self.model[-1]

    def real_kwargs(self, kw):
        out = {}
        for k, v in kw.items():
            if k == "credentials":
                out[k] = CREDS[v]()
            elif k == "context":
                out[k] = Context(*CONTEXTS[v])
            else:
                out[k] = v
        return out

    def viol(self, detail):
        if not self.failed:
            self.R.violation(self.case, detail, None)
        self.failed = True

    def check_config(self, where):
        cfg = self.client.config
        m = self.cur()
        want_cred = CREDS[m["credentials"]]()
        want_ctx = Context(*CONTEXTS[m["context"]])
        if cfg.timeout != m["timeout"] or cfg.retries != m["retries"] or cfg.credentials != want_cred or type(cfg.credentials) is not type(want_cred) or cfg.context != want_ctx:
            self.viol("%s: client.config is (%r, %r, timeout=%r, retries=%r), model says (%s, %r, %r, %r)" % (
                where, cfg.credentials, cfg.context, cfg.timeout, cfg.retries, m["credentials"], CONTEXTS[m["context"]], m["timeout"], m["retries"]))
            return False
        return True

    def check_new_events(self, where):
        """Every sender call since the last check must match the model's current config."""
        m = self.cur()
        name = m["credentials"]
        fam, ident = name.split(":")
        evs = [e for e in self.seam.events[self.checked_events:] if e["kind"] == "call"]
        self.checked_events = len(self.seam.events)
        for e in evs:
            self.R.mon["requests_checked"] += 1
            if e["timeout"] != m["timeout"] or e["retries"] != m["retries"]:
                self.viol("%s: sender called with timeout=%r retries=%r, model says %r/%r" % (where, e["timeout"], e["retries"], m["timeout"], m["retries"]))
                return
            try:
                msg = ber.decode_message(e["request"])
            except ber.BerError as exc:
                self.viol("%s: datagram not decodable: %s" % (where, exc))
                return
            want_version = {"v1": 0, "v2c": 1, "v3": 3}[fam]
            if msg["version"] != want_version:
                self.viol("%s: datagram speaks version %d, model's credentials are %s" % (where, msg["version"], name))
                return
            if fam != "v3":
                if msg["community"] != ident.encode():
                    self.viol("%s: community %r, model says %r" % (where, msg["community"], ident))
                    return
                continue
            usm = msg["usm"]
            if usm["engine_id"] == b"" and usm["user"] == b"":
                self.R.mon["discovery_probes_checked"] += 1
                continue
            if usm["user"] != ident.encode() or msg["flags"] & 3 != LEVEL_OF[name]:
                self.viol("%s: v3 datagram for user %r at level %d, model says %s (level %d)" % (where, usm["user"], msg["flags"] & 3, name, LEVEL_OF[name]))
                return
            if "scoped" in msg:
                sp = msg["scoped"]
            else:
                rec = next((r for r in reversed(self.agent.requests) if r["raw"] == e["request"]), None)
                sp = rec.get("scoped") if rec else None
            if sp is None and rec is not None and rec.get("verdict") == "not_in_window":
                # encrypted and refused for its timing (the device rebooted): the agent
                # never decrypted it; the re-sent request is judged
                self.R.mon["requests_refused_for_timing_after_a_reboot"] += 1
                continue
            if sp is None:
                self.viol("%s: scoped PDU of the v3 request could not be read by the agent" % where)
                return
            eng, cname = CONTEXTS[m["context"]]
            if sp["ctx_engine"] != (eng or self.agent.engine_id) or sp["ctx_name"] != cname:
                self.viol("%s: context (%s, %r), model says (%s, %r)" % (where, sp["ctx_engine"].hex(), sp["ctx_name"], (eng or self.agent.engine_id).hex(), cname))
                return

    def run_steps(self, steps, path):
        for i, st in enumerate(steps):
            if self.failed:
                return
            where = "%s/%d:%s" % (path, i, st[0])
            if st[0] == "request":
                res = rig.outcome(lambda: drive(self.client.get(OID((1, 3, 6, 1, 2, 1, 1, 1, 0)))))
                self.check_new_events(where)
                if res[0] != "ok" and not self.failed:
                    self.viol("%s: request failed: %r" % (where, res[1]))
            elif st[0] == "prepared":
                # the context-manager objects are created FIRST (all of them, then a
                # permanent configure() in between) and entered later, nested: each block
                # overrides its own settings on top of what is in force when it is ENTERED
                _, kw1, kw2, kwc = st
                cm1 = self.client.reconfigure(**self.real_kwargs(kw1))
                cm2 = self.client.reconfigure(**self.real_kwargs(kw2))
                self.client.configure(**self.real_kwargs(kwc))
                self.cur().update(kwc)
                self.check_config(where + ">configure-between")
                with cm1:
                    new1 = dict(self.cur())
                    new1.update(kw1)
                    self.model.append(new1)
                    self.check_config(where + ">enter-prepared-1")
                    with cm2:
                        new2 = dict(new1)
                        new2.update(kw2)
                        self.model.append(new2)
                        self.check_config(where + ">enter-prepared-2")
                        res = rig.outcome(lambda: drive(self.client.get(OID((1, 3, 6, 1, 2, 1, 1, 1, 0)))))
                        self.check_new_events(where + ">prepared-inner")
                        if res[0] != "ok" and not self.failed:
                            self.viol("%s: request inside prepared blocks failed: %r" % (where, res[1]))
                        self.model.pop()
                    self.check_config(where + ">exit-prepared-2")
                    self.model.pop()
                self.check_config(where + ">exit-prepared-1")
                res = rig.outcome(lambda: drive(self.client.get(OID((1, 3, 6, 1, 2, 1, 1, 1, 0)))))
                self.check_new_events(where + ">after-prepared")
                if res[0] != "ok" and not self.failed:
                    self.viol("%s: request after prepared blocks failed: %r" % (where, res[1]))
                self.R.mon["prepared_blocks_checked"] += 1
            elif st[0] == "reboot":
                self.agent.reboot()
                self.R.mon["reboots_inside_histories"] += 1
            elif st[0] == "configure":
                before = self.cur()["credentials"].split(":")[0]
                self.client.configure(**self.real_kwargs(st[1]))
                self.cur().update(st[1])
                if self.cur()["credentials"].split(":")[0] != before:
                    self.R.mon["family_switches_seen"] += 1
                self.check_config(where)
            elif st[0] == "unknown":
                kw = self.real_kwargs(st[2])
                kw["bogus_setting"] = 1
                snapshot = self.client.config
                mpm = self.client.mpm
                try:
                    if st[1] == "configure":
                        self.client.configure(**kw)
                        raised = False
                    else:
                        with self.client.reconfigure(**kw):
                            raised = False
                except Exception:  # noqa: BLE001
                    raised = True
                if not raised:
                    self.viol("%s: unknown setting was accepted" % where)
                elif self.client.config != snapshot or self.client.mpm is not mpm:
                    self.viol("%s: a refused unknown setting changed the configuration" % where)
                else:
                    self.R.mon["unknown_setting_refused"] += 1
                self.check_config(where)
            elif st[0] == "block":
                _, kw, inner, by_exc = st[:4]
                straddle = len(st) > 4 and st[4]
                agen = None
                before = self.cur()["credentials"].split(":")[0]
                new = dict(self.cur())
                new.update(kw)
                try:
                    with self.client.reconfigure(**self.real_kwargs(kw)):
                        self.model.append(new)
                        if new["credentials"].split(":")[0] != before:
                            self.R.mon["family_switches_seen"] += 1
                        self.check_config(where + ">enter")
                        self.run_steps(inner, where)
                        if straddle and not self.failed:
                            agen = self.client.walk(OID(WALK_ROOT))
                            first = rig.outcome(lambda: _anext(agen))
                            self.check_new_events(where + ">walk-first")
                            if first[0] != "ok" and not self.failed:
                                self.viol("%s: first step of the walk failed: %r" % (where, first[1]))
                        if by_exc:
                            # an ordinary exception, a BaseException, a cancellation
                            raise EXITS[(len(where) + len(inner)) % 3]()
                except EXITS as exc:
                    if not by_exc:
                        raise
                    self.R.mon["exception_exits_checked"] += 1
                    self.R.mon["exits_by_" + type(exc).__name__] += 1
                finally:
                    if len(self.model) > 1:
                        self.model.pop()
                self.R.mon["block_exits_checked"] += 1
                self.check_config(where + ">exit")
                if agen is not None and not self.failed:
                    # the rest of the walk is issued OUTSIDE the block: restored settings
                    # (same credential family only, otherwise the walk cannot continue)
                    rest = rig.outcome(lambda: _drain(agen))
                    fam_in = new["credentials"].split(":")[0]
                    fam_out = self.cur()["credentials"].split(":")[0]
                    if fam_in == fam_out and new["credentials"] == self.cur()["credentials"]:
                        self.check_new_events(where + ">walk-rest")
                        if rest[0] != "ok" and not self.failed:
                            self.viol("%s: walk continued after the block failed: %r" % (where, rest[1]))
                        elif not self.failed:
                            self.R.mon["straddling_walks_checked"] += 1
                    else:
                        # credentials differ inside/outside: what the rest of the walk does
                        # is not pinned by the property; only keep the event cursor in step
                        self.checked_events = len(self.seam.events)
                # the next request must speak the pre-block protocol
                res = rig.outcome(lambda: drive(self.client.get(OID((1, 3, 6, 1, 2, 1, 1, 1, 0)))))
                self.check_new_events(where + ">after")
                if res[0] != "ok" and not self.failed:
                    self.viol("%s: request after the block failed: %r" % (where, res[1]))


def _anext(agen):
    async def one():
        try:
            return await agen.__anext__()
        except StopAsyncIteration:
            return None

    return rig._run(one())


def _drain(agen):
    async def rest():
        out = []
        async for item in agen:
            out.append(item)
            if len(out) > 50:
                raise rig.BudgetExceeded("walk too long")
        return out

    return rig._run(rest())


def run_history(R, steps):
    def ser(steps):
        out = []
        for s in steps:
            if s[0] == "block":
                out.append(["block", s[1], ser(s[2]), s[3], len(s) > 4 and s[4]])
            else:
                out.append(list(s))
        return out

    case = {"steps": ser(steps)}
    h = Harness(R, case)
    R.case(("c18", shape(steps)), True, sample=case if R.evaluations % 301 == 0 else None)
    try:
        h.run_steps(steps, "")
    except rig.BudgetExceeded:
        h.viol("request budget exceeded")
    if not h.failed:
        R.mon["histories_ok"] += 1


def run(R):
    n = N_CASES[R.tier]
    if R.shard == 1 % R.nshards:
        many_blocks(R)
    for i in range(n):
        if not R.mine(i):
            continue
        if not R.time_left():
            break
        rng = R.rng(i)
        steps = gen_block(rng, 0, [rng.randint(5, 40)])
        run_history(R, steps)


def many_blocks(R):
    """A poller wraps every request in its own reconfigure() block, hundreds of times on
    one client, many of them left by an exception: block number 300 still applies its
    override and is still undone."""
    from puresnmp import Client
    from puresnmp.credentials import V2C

    calls = []

    async def sender(endpoint, packet, timeout=None, retries=None, loop=None):
        calls.append((timeout, retries))
        m = ber.decode_message(packet)
        pdu = m["pdu"]
        resp = {"type": ber.PDU_RESPONSE, "request_id": pdu["request_id"], "error_status": 0, "error_index": 0, "varbinds": [(o, ("int", 1)) for o, _ in pdu["varbinds"]]}
        return ber.enc_community_message(m["version"], m["community"], resp)

    client = Client("192.0.2.1", V2C("public"), sender=sender)
    base = client.config
    for j in range(320):
        del calls[:]
        kind = j % 3
        try:
            with client.reconfigure(timeout=2 + j % 5, retries=1 + j % 3):
                rig.drive(client.get(OID((1, 3, 6, 1, 2, 1, 1, 1, 0))))
                if kind == 1:
                    raise Boom()
                if kind == 2:
                    raise BoomBase()
        except (Boom, BoomBase):
            pass
        except Exception as exc:  # noqa: BLE001
            R.violation({"history": "many-blocks", "block": j}, "block number %d on one client could not even be entered / used: %r" % (j, exc), None)
            return
        R.evaluations += 1
        if calls != [(2 + j % 5, 1 + j % 3)]:
            R.violation({"history": "many-blocks", "block": j}, "block number %d: the transport saw %r, the override says %r" % (j, calls, (2 + j % 5, 1 + j % 3)), None)
            return
        if client.config != base:
            R.violation({"history": "many-blocks", "block": j}, "after block number %d the configuration is %r, before the first it was %r" % (j, client.config, base), None)
            return
    R.mon["many_blocks_histories"] += 1


def replay(R, v):
    if v["case"].get("history") == "many-blocks":
        many_blocks(R)
        return
    def de(steps):
        out = []
        for s in steps:
            if s[0] == "block":
                out.append(("block", s[1], de(s[2]), s[3], len(s) > 4 and s[4]))
            else:
                out.append(tuple(s))
        return out

    run_history(R, de(v["case"]["steps"]))
