"""
C19 - registered trap listeners receive every matching SNMPv2c notification
exactly once, with the sender's address and exactly the bindings sent;
foreign-community and malformed datagrams are never delivered and never stop
later deliveries.

Real loopback sockets: the listener is registered through the public
register_trap_callback on a free unprivileged port; datagrams are sent from
several 127.0.0.x source addresses, one at a time (the next one only after
the previous one produced its event or a settle period passed), so no kernel
queue can overflow.
"""

import asyncio
import gc
import socket
import warnings

from .. import rig  # noqa: F401
from .. import ber, core, gen
from puresnmp import V2C
from puresnmp.api.pythonic import TrapInfo
from puresnmp.api.raw import register_trap_callback
from puresnmp.pdu import Trap

PROP = "C19"
LEVEL = "exploration"
HERMETIC = False
SHARDS = {"quick": 4, "thorough": 8}
TIME_CAP = {"quick": 50, "thorough": 600}
N_SEQ = {"quick": 500, "thorough": 12000}
RULE = (
    "Listener registered with register_trap_callback on a free loopback port; datagram "
    "sequences of 4..14 items mixing valid SNMPv2c Trap PDUs (sysUpTime, snmpTrapOID and 0..6 "
    "payload bindings of every value type, built by the independent encoder), traps with a "
    "foreign community, truncated valid traps, and garbage, sent from source addresses "
    "127.0.0.1..127.0.0.4. Events: callback invocations and loop exception-handler entries. "
    "Oracle: callback invocations == exactly the valid matching datagrams, each once, in "
    "order; Trap.source == the sender's (address, port); bindings == what was sent; the "
    "TrapInfo view (origin, uptime, oid, values) is pythonic and equal (judged after the whole "
    "sequence, incl. byte-identical notifications from two different sources); invalid datagrams are "
    "never delivered; later valid ones still are. A missing delivery is replayed once before "
    "it becomes a verdict. Distinct by (sequence of datagram classes, payload kinds)."
    " Particular source ports (65535, 65534, 1, 161, 162, 1023, 1024, 32768, 49152) at random"
    " and in one fixed sequence; twenty foreign communities (other case, padding, NUL, octets"
    " outside ASCII) each in front of a valid notification; six callback shapes in rotation ("
    "async function, lambda returning the coroutine, object with async __call__, bound method"
    ", partials)."
    " One sequence in four runs on a loop with asyncio.eager_task_factory; Trap.source is rec"
    "orded as the callback sees it when called."
    " One listener ignores 1344 datagrams in bursts with a valid notification after each burs"
    "t."
    ' Payload bindings named like the two leading ones; one sequence in four has a callback t'
    "hat takes its trap's binding list apart (every delivery judged at callback time); datagr"
    'ams with a fine envelope and a malformed PDU body or ONE malformed binding value are nev'
    'er delivered; three listeners with communities of their own on one loop.'
)
ASSUMPTIONS = [
    "garbage is generated without the octet 0x80 (the indefinite-length spin of the external BER library belongs to C20 and would hang the listener)",
    "loopback delivery of one small datagram at a time is loss-free",
]
REQUIRED_MONITORS = ("valid_traps_delivered_once", "invalid_never_delivered", "valid_after_invalid_delivered", "source_checked", "trapinfo_checked")

UPTIME = (1, 3, 6, 1, 2, 1, 1, 3, 0)
TRAPOID = (1, 3, 6, 1, 6, 3, 1, 1, 4, 1, 0)


def free_port6():
    s = socket.socket(socket.AF_INET6, socket.SOCK_DGRAM)
    s.bind(("::1", 0))
    p = s.getsockname()[1]
    s.close()
    return p


def free_port():
    s = socket.socket(socket.AF_INET, socket.SOCK_DGRAM)
    s.bind(("127.0.0.1", 0))
    p = s.getsockname()[1]
    s.close()
    return p


# communities that are NOT b"public": other words, prefixes/extensions, another case,
# padding, and strings that only differ by octets outside ASCII / by a NUL
FOREIGN = (b"private", b"publi", b"publicx", b"", b"PUBLIC", b"Public", b"public ", b" public", b"public\x00", b"\x00public", b"p\x00ublic",
           b"pub\xfflic", b"public\x80", b"\xe2\x80\x8bpublic", b"public\xc2\xa0", b"publi\xe7", b"\xffpublic\xff", b"publ\xc3\xaec", b"public\n", b"public\r\n")


PORT = [0]


def gen_item(rng, i):
    it = _gen_item(rng, i)
    if PORT[0]:
        it["port"] = PORT[0]
    return it


def _gen_item(rng, i):
    r = rng.random()
    n = rng.choice((0, 0, 1, 2, 3, 6))
    payload = [((1, 3, 6, 1, 4, 1, 4242, 2, j), gen.gen_value(rng)) for j in range(n)]
    if payload and rng.random() < 0.15:
        # a PAYLOAD binding named like one of the two leading bindings (the sysUpTime.0 at
        # which an event was first seen, a relayed notification's snmpTrapOID.0), or a
        # TimeTicks payload: bindings like any other
        j = rng.randrange(len(payload))
        payload[j] = rng.choice(((UPTIME, ("tt", rng.choice((0, 77, 2**31, 2**32 - 1)))), (TRAPOID, ("oid", (1, 3, 6, 1, 4, 1, 4242, 0, 99))),
                                 (payload[j][0], ("tt", rng.choice((0, 1, 2**31 - 1, 2**31, 2**32 - 1))))))
    vbs = [(UPTIME, ("tt", rng.choice((0, 1, 4242, 2**31 - 1, 2**31, 2**32 - 1)))), (TRAPOID, ("oid", (1, 3, 6, 1, 4, 1, 4242, 0, i)))] + payload
    pdu = {"type": ber.PDU_TRAP, "request_id": 1000 + i, "error_status": 0, "error_index": 0, "varbinds": vbs}
    src = "127.0.0.%d" % rng.choice((1, 2, 3, 4))
    # a particular source port now and then: the ends of the range, the SNMP ports, a low one
    PORT[0] = rng.choice((65535, 65534, 1, 161, 162, 1023, 1024, 32768, 49152)) if rng.random() < 0.12 else 0
    if r < 0.55:
        return {"cls": "valid", "src": src, "data": ber.enc_community_message(1, b"public", pdu), "vbs": vbs, "i": i}
    if r < 0.7:
        return {"cls": "foreign", "src": src, "data": ber.enc_community_message(1, rng.choice(FOREIGN), pdu), "vbs": vbs, "i": i}
    if r < 0.85:
        raw = ber.enc_community_message(1, b"public", pdu)
        cut = rng.randint(1, len(raw) - 1)
        return {"cls": "truncated", "src": src, "data": raw[:cut], "vbs": None, "i": i}
    if r < 0.89:
        # the envelope (version, matching community, a notification PDU tag with consistent
        # lengths all the way out) is fine, the PDU's CONTENT is not: cut short inside, or
        # octets that are no request-id / error fields / binding list
        body = ber.enc_pdu(pdu)
        _tag, c0, c1 = ber.read_tlv(body, 0, len(body))
        content = body[c0:c1]
        how = rng.randrange(3)
        if how == 0:
            bad = content[: rng.randint(0, max(len(content) - 1, 0))]
        elif how == 1:
            bad = bytes(rng.choice((0xFF, 0x9F, 0x1F)) for _ in range(rng.choice((1, 3, 9, 30))))
        else:
            # every header is fine; ONE value is not: an OBJECT IDENTIFIER whose last
            # sub-identifier never ends (X.690 8.19.2: the last octet of a sub-identifier
            # has bit 8 clear)
            broken = rng.choice((b"\x06\x03\xff\xff\xff", b"\x06\x02\x2b\x81", b"\x06\x05\x2b\x06\x01\x84\x80"))
            vbs2 = list(vbs)
            at = rng.randrange(1, len(vbs2)) if len(vbs2) > 2 and rng.random() < 0.7 else 1
            vbs2[at] = (vbs2[at][0], ("rawtlv", broken))
            body2 = ber.enc_pdu(dict(pdu, varbinds=vbs2))
            _t2, d0, d1 = ber.read_tlv(body2, 0, len(body2))
            bad = body2[d0:d1]
        data = ber.tlv(0x30, ber.enc_integer(1) + ber.enc_octets(b"public") + ber.tlv(0xA7, bad))
        return {"cls": "badbody", "src": src, "data": data, "vbs": None, "i": i}
    if r < 0.93:
        # a well-formed message of ANOTHER SNMP version (a v1 trap-era message, a v3
        # message): not for this v2c listener, must not disturb it
        if rng.random() < 0.6:
            comm = rng.choice((b"public", b"legacy"))
            data = ber.enc_community_message(0, comm, dict(pdu, type=ber.PDU_TRAP))
            if comm == b"public":
                # same community, other version: the statement does not say whether a
                # v2c listener hands this on; either way it must not disturb anything
                return {"cls": "otherversion-samecommunity", "src": src, "data": data, "vbs": None, "i": i}
        else:
            data = ber.enc_v3_message({"msg_id": 7, "max_size": 65507, "flags": 0, "sec_model": 3,
                                        "usm": {"engine_id": b"\x80\x00\x00\x01\x02", "boots": 1, "time": 2, "user": b"u", "auth": b"", "priv": b""},
                                        "scoped": (b"\x80\x00\x00\x01\x02", b"", pdu)})
        return {"cls": "otherversion", "src": src, "data": data, "vbs": None, "i": i}
    g = bytes(b for b in (rng.getrandbits(8) for _ in range(rng.choice((1, 2, 7, 40, 200)))) if b != 0x80) or b"\x00"
    return {"cls": "garbage", "src": src, "data": g, "vbs": None, "i": i}


HAS_IPV6 = [None]


def have_ipv6():
    if HAS_IPV6[0] is None:
        try:
            s = socket.socket(socket.AF_INET6, socket.SOCK_DGRAM)
            s.bind(("::1", 0))
            s.close()
            HAS_IPV6[0] = True
        except OSError:
            HAS_IPV6[0] = False
    return HAS_IPV6[0]


CB_SHAPE = [0]
SEEN_SOURCE = {}
SEEN_BINDINGS = {}
MUTATE = [False]


def run_sequence(R, items, attempt=0, v6=False):
    """Returns (problems, stats).  problems: list of (kind, detail)."""
    events = []
    SEEN_SOURCE.clear()
    SEEN_BINDINGS.clear()
    loop = asyncio.new_event_loop()
    eager = CB_SHAPE[0] % 4 == 3 and hasattr(asyncio, "eager_task_factory")
    if eager:
        # Python 3.12+: tasks start running inside create_task()/ensure_future(), before
        # the statement after it - a legitimate way to set up the caller's loop
        loop.set_task_factory(asyncio.eager_task_factory)
    loop.set_exception_handler(lambda l, ctx: events.append(("exc", repr(ctx.get("exception")), ctx.get("message"))))

    async def handler(trap, *extra):
        # what the callback SEES when it is called (the object may be touched later)
        SEEN_SOURCE[id(trap)] = getattr(trap, "source", None)
        try:
            SEEN_BINDINGS[id(trap)] = [(rig.oid_t(vb.oid), rig.to_tuple(vb.value)) for vb in trap.value.varbinds]
            if MUTATE[0]:
                # a callback that handles ITS trap's binding list the ordinary, mutating way
                # (takes the two leading bindings off, keeps the rest): no business of any
                # other delivery - what later callbacks see is judged at THEIR call time
                lst = trap.value.varbinds
                del lst[:2]
                lst.reverse()
        except Exception as exc:  # noqa: BLE001
            SEEN_BINDINGS[id(trap)] = "unreadable: %r" % (exc,)
        events.append(("trap", trap))

    # the shapes a caller may give its callback (Callable[[Trap], Awaitable[None]])
    class CallableObject:
        async def __call__(self, trap):
            await handler(trap)

    class Owner:
        async def method(self, trap):
            await handler(trap)

    import functools

    shape = CB_SHAPE[0] % 6
    callback = (
        handler,
        lambda trap: handler(trap, "context"),  # plain function returning the coroutine
        CallableObject(),
        Owner().method,
        functools.partial(lambda ctx, trap: handler(trap, ctx), "ctx"),
        functools.partial(handler),
    )[shape]
    stats_shape = shape

    port = free_port() if not v6 else free_port6()
    socks = {}
    problems = []
    stats = {"valid": 0, "invalid": 0, "cb_shape": stats_shape, "eager": int(eager)}
    with warnings.catch_warnings(record=True):
        warnings.simplefilter("always")
        try:
            register_trap_callback(callback, listen_address="::1" if v6 else "127.0.0.1", port=port, credentials=V2C("public"), loop=loop)
            pause = 0.004 * (1 + 4 * attempt)
            for it in items:
                key = (it["src"], it.get("port", 0))
                s = socks.get(key)
                if s is None:
                    host, want_port = key
                    s = socket.socket(socket.AF_INET6 if v6 else socket.AF_INET, socket.SOCK_DGRAM)
                    try:
                        s.bind(("::1" if v6 else host, want_port if want_port != port else 0))
                        if want_port:
                            stats["particular_source_ports"] = stats.get("particular_source_ports", 0) + 1
                    except OSError:
                        # taken / not permitted here: any port will do
                        s.bind(("::1" if v6 else host, 0))
                    socks[key] = s
                it["sport"] = s.getsockname()[1]
                before = len(events)
                s.sendto(it["data"], ("::1" if v6 else "127.0.0.1", port))
                # wait for this datagram's event (bounded); invalid ones may be dropped silently
                rounds = (120 if attempt == 0 else 500) if it["cls"] == "valid" else 6
                for _ in range(rounds):
                    loop.run_until_complete(asyncio.sleep(pause))
                    if len(events) > before:
                        break
                loop.run_until_complete(asyncio.sleep(0))
            loop.run_until_complete(asyncio.sleep(pause * 5))
        finally:
            for s in socks.values():
                s.close()
            try:
                for t in asyncio.all_tasks(loop):
                    t.cancel()
                loop.run_until_complete(loop.shutdown_asyncgens())
            finally:
                # close the listening transport(s)
                for tr in list(getattr(loop, "_transports", {}).values()):
                    tr.close()
                loop.run_until_complete(asyncio.sleep(0))
                loop.close()
        gc.collect()
    delivered = [e[1] for e in events if e[0] == "trap"]
    expect = [it for it in items if it["cls"] == "valid"]
    stats["valid"] = len(expect)
    stats["invalid"] = len(items) - len(expect)
    stats["exc_events"] = sum(1 for e in events if e[0] == "exc")
    stats["first_exc"] = next((e[1] for e in events if e[0] == "exc"), None)
    # match deliveries to datagrams by request-id
    got_ids = []
    for trap in delivered:
        try:
            got_ids.append(trap.value.request_id)
        except Exception as exc:  # noqa: BLE001
            problems.append(("bad-object", "callback got %r (%r)" % (trap, exc)))
            got_ids.append(None)
    either = {1000 + it["i"] for it in items if it["cls"] == "otherversion-samecommunity"}
    if either:
        keep = [(t, r) for t, r in zip(delivered, got_ids) if r not in either]
        stats["unspecified_deliveries"] = len(delivered) - len(keep)
        delivered = [t for t, _ in keep]
        got_ids = [r for _, r in keep]
    want_ids = [1000 + it["i"] for it in expect]
    valid_ids = set(want_ids)
    for rid in got_ids:
        if rid not in valid_ids:
            it = next((x for x in items if 1000 + x["i"] == rid), None)
            problems.append(("invalid-delivered", "a %s datagram was delivered to the callback (request-id %r)" % (it["cls"] if it else "unknown", rid)))
    good = [rid for rid in got_ids if rid in valid_ids]
    if good != want_ids:
        missing = [r for r in want_ids if r not in good]
        dup = sorted({r for r in good if good.count(r) > 1})
        if missing:
            problems.append(("missing", "valid notifications never delivered: request-ids %r (of %d valid; %d exception events, first %s)" % (missing[:5], len(want_ids), stats["exc_events"], stats["first_exc"])))
        if dup:
            problems.append(("duplicate", "notifications delivered more than once: %r" % dup))
        if not missing and not dup:
            problems.append(("order", "delivered in order %r, sent %r" % (good[:8], want_ids[:8])))
    # contents: pair deliveries with the datagrams sent, in order (byte-identical
    # notifications from different sources share a request-id)
    pairs = []
    if good == want_ids:
        valid_deliveries = []
        for trap in delivered:
            try:
                if trap.value.request_id in valid_ids:
                    valid_deliveries.append(trap)
            except Exception:  # noqa: BLE001
                pass
        pairs = list(zip(valid_deliveries, expect))
    for trap, it in pairs:
        rid = trap.value.request_id
        if type(trap) is not Trap:
            problems.append(("bad-object", "callback got a %s, not a Trap" % type(trap).__name__))
            continue
        got = SEEN_BINDINGS.get(id(trap))
        if got is None or not MUTATE[0]:
            got = [(rig.oid_t(vb.oid), rig.to_tuple(vb.value)) for vb in trap.value.varbinds]
        if got != it["vbs"]:
            problems.append(("bindings", "trap %d delivered with bindings %r, sent %r" % (rid, str(got)[:200], str(it["vbs"])[:200])))
        src = SEEN_SOURCE.get(id(trap), getattr(trap, "source", None))
        want_addr = "::1" if v6 else it["src"]
        if src is None or (src.address, src.port) != (want_addr, it["sport"]):
            problems.append(("source", "Trap.source is %r, datagram came from %s:%d" % (src, it["src"], it["sport"])))
        else:
            stats["source_ok"] = stats.get("source_ok", 0) + 1
        if MUTATE[0]:
            stats["judged_at_callback_time"] = stats.get("judged_at_callback_time", 0) + 1
            continue
        try:
            info = TrapInfo(trap)
            want_vals = {rig.oid_s(o): rig.pythonized(v) for o, v in it["vbs"][2:]}
            view = (info.origin, info.uptime, info.oid, info.values)
            want_view = (want_addr, rig.pythonized(it["vbs"][0][1]), rig.oid_s(it["vbs"][1][1][1]), want_vals)
            if view != want_view:
                problems.append(("trapinfo", "TrapInfo view %r, expected %r" % (str(view)[:200], str(want_view)[:200])))
            else:
                stats["trapinfo_ok"] = stats.get("trapinfo_ok", 0) + 1
        except Exception as exc:  # noqa: BLE001
            problems.append(("trapinfo", "TrapInfo raised %r" % (exc,)))
    # valid-after-invalid
    seen_invalid = False
    for it in items:
        if it["cls"] != "valid":
            seen_invalid = True
        elif seen_invalid and (1000 + it["i"]) in good:
            stats["valid_after_invalid"] = stats.get("valid_after_invalid", 0) + 1
    return problems, stats


def classify(problems, stats):
    kinds = {k for k, _ in problems}
    if kinds == {"missing"} and stats.get("first_exc") and "'Integer' object is not subscriptable" in stats["first_exc"]:
        return "trap-decode-indexes-version"
    if kinds == {"source"} or kinds == {"source", "trapinfo"}:
        return "trap-source-unset"
    return None


def run_items(R, items, label, v6=False):
    CB_SHAPE[0] = CB_SHAPE[0] + 1 if label != "replay" else CB_SHAPE[0]
    if label == "mutating-callback":
        MUTATE[0] = True
    elif label != "replay":
        MUTATE[0] = (CB_SHAPE[0] // 6) % 4 == 3
    if MUTATE[0]:
        R.mon["sequences_with_a_mutating_callback"] += 1
    R.mon["callback_shape_%d" % (CB_SHAPE[0] % 6)] += 1
    case = {"cb_shape": CB_SHAPE[0] % 6, "mutate": MUTATE[0], "v6": v6, "items": [{"cls": it["cls"], "src": it["src"], "port": it.get("port", 0), "data": "hex:" + it["data"].hex(), "i": it["i"], "vbs": rig.jsonable(it["vbs"])} for it in items]}
    problems, stats = run_sequence(R, items, v6=v6)
    timing = {"missing"}
    if problems and {k for k, _ in problems} <= timing:
        # replay once (slower pacing) before a missing delivery becomes a verdict
        R.mon["replayed_before_verdict"] += 1
        problems, stats = run_sequence(R, items, attempt=1, v6=v6)
    shape = (v6,) + tuple(it["cls"][0] for it in items)
    kinds = tuple(sorted({v[1][0] for it in items if it["vbs"] for v in it["vbs"][2:]}))
    R.case(("c19", shape, kinds), stats["valid"] >= 1, sample={"label": label, "classes": [it["cls"] for it in items], "sources": [it["src"] for it in items], "delivered": stats["valid"] - sum(1 for k, _ in problems if k == "missing")} if R.evaluations % 23 == 0 else None)
    R.mon["datagrams_sent"] += len(items)
    R.mon["particular_source_ports_bound"] += stats.get("particular_source_ports", 0)
    R.mon["sequences_on_an_eager_task_loop"] += stats.get("eager", 0)
    R.mon["loop_exception_events"] += stats.get("exc_events", 0)
    if problems:
        R.violation(case, "; ".join(d for _, d in problems[:3]), classify(problems, stats))
        return
    R.mon["valid_traps_delivered_once"] += stats["valid"]
    R.mon["invalid_never_delivered"] += stats["invalid"]
    R.mon["valid_after_invalid_delivered"] += stats.get("valid_after_invalid", 0)
    R.mon["source_checked"] += stats.get("source_ok", 0)
    R.mon["trapinfo_checked"] += stats.get("trapinfo_ok", 0)
    R.mon["bindings_judged_at_callback_time"] += stats.get("judged_at_callback_time", 0)


def run(R):
    core.install_socket_audit()
    n = N_SEQ[R.tier]
    if R.shard == 1 % R.nshards:
        fixed_sequences(R)
    if R.shard == 2 % R.nshards:
        long_lived_listener(R)
    if R.shard == 3 % R.nshards:
        several_listeners(R)
    for i in range(n):
        if not R.mine(i):
            continue
        if not R.time_left():
            break
        rng = R.rng(i)
        items = [gen_item(rng, j) for j in range(rng.randint(4, 14))]
        if rng.random() < 0.4:
            # a byte-identical copy of a valid notification from ANOTHER source address
            # (two devices of the same type reporting the same event): both must be
            # delivered, each with its own origin
            valid = [it for it in items if it["cls"] == "valid"]
            if valid:
                orig = rng.choice(valid)
                others = [a for a in ("127.0.0.1", "127.0.0.2", "127.0.0.3", "127.0.0.4") if a != orig["src"]]
                twin = dict(orig, src=rng.choice(others))
                items.insert(rng.randint(items.index(orig) + 1, len(items)), twin)
        if i % 4 == 0:
            idx = 900 + i % 50  # its own request-id, distinct from the sequence's
            first = gen_item(R.rng(i, "first"), idx)
            tries = 0
            while not first["cls"].startswith("otherversion") and tries < 60:
                first = gen_item(R.rng(i, "first", tries), idx)
                tries += 1
            if first["cls"].startswith("otherversion"):
                items.insert(0, first)  # the very first datagram the fresh listener sees
        if not any(it["cls"] == "valid" for it in items):
            items[-1] = gen_item(R.rng(i, "v"), len(items) - 1)
            while items[-1]["cls"] != "valid":
                items[-1] = gen_item(rng, len(items) - 1)
        v6 = have_ipv6() and i % 5 == 3
        if v6:
            R.mon["ipv6_listener_sequences"] += 1
        run_items(R, items, "gen", v6=v6)


def long_lived_listener(R):
    """ONE listener sees well over a thousand datagrams that are not for it (foreign
    communities, truncated, garbage) in bursts, with a valid notification after every
    burst: the valid one after the 1300th ignored datagram is delivered like the first."""
    rng = R.rng("long-lived")
    events = []
    loop = asyncio.new_event_loop()
    loop.set_exception_handler(lambda l, ctx: None)

    async def callback(trap):
        events.append(trap.value.request_id)

    port = free_port()
    sock = socket.socket(socket.AF_INET, socket.SOCK_DGRAM)
    sock.bind(("127.0.0.1", 0))
    ignored = 0
    missing = None
    with warnings.catch_warnings(record=True):
        warnings.simplefilter("always")
        try:
            register_trap_callback(callback, listen_address="127.0.0.1", port=port, credentials=V2C("public"), loop=loop)
            for burst in range(24):
                for j in range(56):
                    it = _gen_item(rng, 5000 + j)
                    while it["cls"] in ("valid", "otherversion-samecommunity"):
                        it = _gen_item(rng, 5000 + j)
                    sock.sendto(it["data"], ("127.0.0.1", port))
                    ignored += 1
                    if j % 8 == 7:
                        loop.run_until_complete(asyncio.sleep(0.002))
                loop.run_until_complete(asyncio.sleep(0.03))
                vbs = [(UPTIME, ("tt", burst)), (TRAPOID, ("oid", (1, 3, 6, 1, 4, 1, 4242, 0, burst)))]
                rid = 7000 + burst
                sock.sendto(ber.enc_community_message(1, b"public", {"type": ber.PDU_TRAP, "request_id": rid, "error_status": 0, "error_index": 0, "varbinds": vbs}), ("127.0.0.1", port))
                for _ in range(400):
                    loop.run_until_complete(asyncio.sleep(0.005))
                    if rid in events:
                        break
                if rid not in events:
                    missing = (burst, ignored)
                    break
        finally:
            sock.close()
            try:
                for t in asyncio.all_tasks(loop):
                    t.cancel()
                loop.run_until_complete(loop.shutdown_asyncgens())
            finally:
                for tr in list(getattr(loop, "_transports", {}).values()):
                    tr.close()
                loop.run_until_complete(asyncio.sleep(0))
                loop.close()
    R.evaluations += 1
    R.case(("c19-long-lived",), True)
    R.mon["datagrams_sent"] += ignored + 24
    if missing:
        R.violation({"v6": False, "items": [], "long_lived": True}, "a long-lived listener: the valid notification after %d ignored datagrams (burst %d) was never delivered; %d earlier ones were" % (missing[1], missing[0], len(events)), None)
        return
    R.mon["long_lived_listener_ok"] += 1
    R.mon["ignored_datagrams_on_one_listener"] += ignored


def several_listeners(R):
    """Several listeners in ONE process (one loop), each with a community of its own: every
    listener delivers the notifications carrying ITS community that arrive on ITS port,
    whichever listener was registered first or saw a datagram first."""
    comms = (b"public", b"beta", b"gamma-community")
    for order in ((0, 1, 2), (2, 0, 1), (1, 2, 0)):
        events = []
        loop = asyncio.new_event_loop()
        loop.set_exception_handler(lambda l, ctx: None)
        ports = {}
        sock = socket.socket(socket.AF_INET, socket.SOCK_DGRAM)
        sock.bind(("127.0.0.1", 0))
        sends = []
        with warnings.catch_warnings(record=True):
            warnings.simplefilter("always")
            try:
                for li in order:
                    ports[li] = free_port()

                    def make(li):
                        async def cb(trap):
                            events.append((li, trap.value.request_id))

                        return cb

                    register_trap_callback(make(li), listen_address="127.0.0.1", port=ports[li], credentials=V2C(comms[li].decode()), loop=loop)
                rid = 3000
                # first datagram of the process goes to the listener registered LAST
                plan = [(order[-1], order[-1])] + [(to, c) for to in order for c in order] + [(li, li) for li in order]
                for to, c in plan:
                    rid += 1
                    vbs = [(UPTIME, ("tt", rid)), (TRAPOID, ("oid", (1, 3, 6, 1, 4, 1, 4242, 0, rid)))]
                    sock.sendto(ber.enc_community_message(1, comms[c], {"type": ber.PDU_TRAP, "request_id": rid, "error_status": 0, "error_index": 0, "varbinds": vbs}), ("127.0.0.1", ports[to]))
                    sends.append((to, c, rid))
                    for _ in range(200 if to == c else 6):
                        loop.run_until_complete(asyncio.sleep(0.004))
                        if any(e[1] == rid for e in events):
                            break
                loop.run_until_complete(asyncio.sleep(0.05))
            finally:
                sock.close()
                try:
                    for t in asyncio.all_tasks(loop):
                        t.cancel()
                    loop.run_until_complete(loop.shutdown_asyncgens())
                finally:
                    for tr in list(getattr(loop, "_transports", {}).values()):
                        tr.close()
                    loop.run_until_complete(asyncio.sleep(0))
                    loop.close()
        R.evaluations += 1
        R.case(("c19-several-listeners", order), True)
        R.mon["datagrams_sent"] += len(sends)
        want = [(to, rid) for to, c, rid in sends if to == c]
        if events != want:
            missing = [x for x in want if x not in events]
            extra = [x for x in events if x not in want]
            R.violation({"v6": False, "items": [], "several_listeners": True}, "three listeners with communities %r (registered in order %r): never delivered %r, wrongly delivered %r (listener, request-id)" % ([c.decode() for c in comms], list(order), missing[:4], extra[:4]), None)
            return
        R.mon["several_listener_sequences_ok"] += 1
        R.mon["valid_traps_delivered_once"] += len(want)
        R.mon["invalid_never_delivered"] += len(sends) - len(want)


def fixed_sequences(R):
    """A valid notification from each particular source port (the ends of the port
    range included), and every foreign community in front of a valid notification."""
    rng = R.rng("ports")
    items = []
    for j, port in enumerate((65535, 65534, 1, 161, 162, 1023, 1024, 32768, 49152, 65535)):
        it = _gen_item(rng, j)
        while it["cls"] != "valid":
            it = _gen_item(rng, j)
        it["port"] = port
        it["src"] = "127.0.0.%d" % (1 + j % 3)
        items.append(it)
    run_items(R, items, "ports")
    R.mon["particular_port_sequences"] += 1
    items = []
    for j, comm in enumerate(FOREIGN):
        it = _gen_item(rng, 2 * j)
        while it["cls"] != "valid":
            it = _gen_item(rng, 2 * j)
        pdu = {"type": ber.PDU_TRAP, "request_id": 1000 + 2 * j + 1, "error_status": 0, "error_index": 0, "varbinds": it["vbs"]}
        items.append({"cls": "foreign", "src": it["src"], "data": ber.enc_community_message(1, comm, pdu), "vbs": it["vbs"], "i": 2 * j + 1})
        items.append(it)
    run_items(R, items, "foreign-communities")
    R.mon["foreign_community_sequences"] += 1
    # the same notification reported three times (a repeat, and a second device of the same
    # type), payload bindings named like the leading ones, to a callback that takes its
    # trap's binding list apart
    vbs = [(UPTIME, ("tt", 2**31 + 5)), (TRAPOID, ("oid", (1, 3, 6, 1, 4, 1, 4242, 0, 1))), (UPTIME, ("tt", 12)), ((1, 3, 6, 1, 4, 1, 4242, 2, 1), ("tt", 2**32 - 1)),
           (TRAPOID, ("oid", (1, 3, 6, 1, 4, 1, 4242, 0, 2))), ((1, 3, 6, 1, 4, 1, 4242, 2, 2), ("null", None))]
    data = ber.enc_community_message(1, b"public", {"type": ber.PDU_TRAP, "request_id": 1000, "error_status": 0, "error_index": 0, "varbinds": vbs})
    for label in ("repeats", "mutating-callback"):
        items = [{"cls": "valid", "src": "127.0.0.%d" % a, "data": data, "vbs": vbs, "i": 0} for a in (1, 2, 1, 3)]
        run_items(R, items, label)
    MUTATE[0] = False
    R.mon["repeated_notification_sequences"] += 2


def replay(R, v):
    if v["case"].get("long_lived"):
        long_lived_listener(R)
        return
    if v["case"].get("several_listeners"):
        several_listeners(R)
        return
    items = []
    for it in v["case"]["items"]:
        vbs = None
        if it["vbs"]:
            vbs = []
            for o, val in it["vbs"]:
                kind, x = val
                if isinstance(x, str) and x.startswith("hex:"):
                    x = bytes.fromhex(x[4:])
                elif isinstance(x, list):
                    x = tuple(x)
                vbs.append((tuple(o), (kind, x)))
        items.append({"cls": it["cls"], "src": it["src"], "port": it.get("port", 0), "data": bytes.fromhex(it["data"][4:]), "i": it["i"], "vbs": vbs})
    CB_SHAPE[0] = v["case"].get("cb_shape", 0)
    MUTATE[0] = bool(v["case"].get("mutate"))
    run_items(R, items, "replay", v6=bool(v["case"].get("v6")))
