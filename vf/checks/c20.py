"""
C20 - no datagram, however malformed, can hang the client or exhaust memory:
processing completes (result or exception) in logical steps and heap bounded
by a small multiple of the datagram's size, and the client stays usable.

Each case is one public call whose transport delivers the mutated datagram:
Client.multiget, a walk step, the discovery exchange of a fresh v3 client,
or the trap listener's datagram path.  The call runs under the logical step
monitor (vf/budget.py) and tracemalloc; RLIMIT_AS, faulthandler and the
shard watchdog are backstops only.
"""

import asyncio
import os
import faulthandler
import resource
import tracemalloc

from .. import rig  # noqa: F401
from .. import ber, budget, env, privxf
from ..rig import OID, World, drive, drive_agen
from ..vloop import VLoop
import x690.types as x690_types
import x690.util as x690_util
from puresnmp import V2C
from puresnmp.api.raw import register_trap_callback

PROP = "C20"
LEVEL = "fault_enumeration"
SHARDS = {"quick": 8, "thorough": 16}
TIME_CAP = {"quick": 55, "thorough": 1500}
WATCHDOG = {"quick": 900, "thorough": 7200}
RULE = (
    "Seeds: valid v1/v2c/v3 responses (GET of several value types, a walk step), v3 at "
    "noAuthNoPriv/authNoPriv/authPriv, usmStats Reports, the discovery reply, and a v2c trap. "
    "Faults per seed: EVERY single-bit flip (quick: every 3rd bit), EVERY truncation, EVERY "
    "substitution of every TLV header octet (tags and length octets located by the independent "
    "decoder) by {00,7f,80,81,82,84,88,ff,30,04,a2}; well-formed v3 messages with field-level "
    "edits (USM fields of length 0/1/11/13/32/33/255/1000 under every flag combination, "
    "extreme boots/time/msgID/maxSize/securityModel/flags values, C09's forgeries); plus nesting bombs and random byte "
    "strings up to the UDP maximum. SNMPv3 mutations are applied both before authentication "
    "(outer bytes) and after it: the mutated message is re-signed with the real key / the "
    "mutated plaintext scoped PDU is re-encrypted and re-signed, so that it passes the digest "
    "and reaches the deeper parser. Verdict per case on logical counts: steps <= a + b*len, "
    "tracemalloc peak <= c + d*len (fixed: a=40000, b=100, c=12 MiB, d=400, about 10x what valid "
    "traffic needs; valid small and large responses run under the same budgets first), and a "
    "follow-up valid request on the SAME client succeeds. Distinct by "
    "(seed, fault kind, position)."
    " Discovery replies also get field-level edits (boots/time up to 2^2000, field lengths 0."
    ".60000, header values, flags, counters, binding counts); the follow-up request runs unde"
    "r a step budget of its own."
    " A latched engine (boots 2^31-1) answers every request with an authentic notInTimeWindow"
    " report: each call ends within 6 requests and 8x the base step budget, three times in a "
    "row."
    " Bombs with ONE damaged binding among thousands (last / middle / first); the variants of"
    " a target (plain, re-signed, re-encrypted, bombs) take turns under the time cap."
    " USM blocks with one field retagged (INTEGER/NULL/SEQUENCE/application) and a short cont"
    "ent; 400 (thorough 12000) exchanges on one client with flat library-attributed memory."
    " Edge datagrams (0 octets .. values nested 300 deep) through the library's own UDP sende"
    'r on the virtual-time loop, DEBUG logging off and on, under the step budget; one soak ex'
    'change in five is a SET refused with the same error.'
)
ASSUMPTIONS = [
    "steps = sys.monitoring JUMP|PY_START|PY_RESUME|PY_THROW events inside puresnmp, puresnmp_plugins and x690 (every loop iteration takes a backward jump, every call a PY_START)",
    "budgets are finite: a spin reaches any finite budget; a watchdog firing is inconclusive, never a verdict",
    "known finding x690-indefinite-length-spin is classified by an observed event: x690's get_value_slice returned a next index that does not advance",
]
REQUIRED_MONITORS = ("cases_within_budget", "followup_ok", "header_substitutions", "bit_flips", "truncations", "field_level_edits")

SUBST = (0x00, 0x7F, 0x80, 0x81, 0x82, 0x84, 0x88, 0xFF, 0x30, 0x04, 0xA2)
DB = {
    (1, 3, 6, 1, 2, 1, 1, 1, 0): ("str", b"sysDescr of the reference agent"),
    (1, 3, 6, 1, 2, 1, 1, 2, 0): ("oid", (1, 3, 6, 1, 4, 1, 8072, 3, 2, 10)),
    (1, 3, 6, 1, 2, 1, 1, 3, 0): ("tt", 123456),
    (1, 3, 6, 1, 2, 1, 2, 1, 0): ("int", -5),
    (1, 3, 6, 1, 2, 1, 4, 20, 1, 1): ("ip", b"\x0a\x00\x00\x01"),
    (1, 3, 6, 1, 2, 1, 31, 1, 1, 1, 6, 1): ("c64", 2**40 + 5),
}
K = sorted(DB)

# --- localiser: non-advancing TLV slices inside x690 -------------------------
NONADV = [0]
_orig_gvs = x690_util.get_value_slice


def _gvs(data, index=0):
    out = _orig_gvs(data, index)
    try:
        if out[1] <= index:
            NONADV[0] += 1
    except Exception:  # noqa: BLE001
        pass
    return out


def install_localiser():
    attached = 0
    for mod in (x690_util, x690_types):
        if getattr(mod, "get_value_slice", None) is _orig_gvs:
            mod.get_value_slice = _gvs
            attached += 1
    return attached


class Target:
    """A client plus one kind of exchange into which datagrams are injected."""

    def __init__(self, level, mode):
        self.level, self.mode = level, mode
        self.w = World(level, DB)
        if mode != "discovery":
            self.w.prime()
        self.seed = None
        self.plain = None
        if mode in ("get", "walk"):
            self.call()
            self.seed = self.w.seam.responses[-1]
            if level.endswith("-priv"):
                rec = [r for r in self.w.agent.requests if "response_pdu" in r][-1]
                self.plain = ber.enc_scoped_pdu(self.w.agent.engine_id, rec["scoped"]["ctx_name"], rec["response_pdu"])
        elif mode == "discovery":
            probe = World(level, DB)
            try:
                drive(probe.client.get(OID(K[0])))
            except Exception:  # noqa: BLE001
                pass
            self.seed = probe.seam.responses[0]
        elif mode == "report":
            # an authenticated notInTimeWindow report / unauthenticated usmStats report
            inner = self.w.agent.handle
            self.w.agent.boots += 5
            try:
                self.call()
            except Exception:  # noqa: BLE001
                pass
            self.seed = self.w.seam.responses[0]
            self.w.agent.boots -= 5
            self.w = World(level, DB)
            self.w.prime()
        self.msg = ber.decode_message(self.seed)
        self.user = self.w.agent.users.get(rig.USER.encode()) if level.startswith("v3") else None

    def call(self):
        c = self.w.client
        if self.mode == "walk":
            return drive_agen(c.walk(OID((1, 3, 6, 1, 2, 1, 1))), limit=50)
        return drive(c.multiget([OID(k) for k in K[:4]]))

    def fresh_for_discovery(self):
        self.w = World(self.level, DB)

    def deliver(self, data):
        """Run the exchange with ``data`` as the (first) answer; (kind, value, steps, peak)."""
        if self.mode == "discovery":
            self.fresh_for_discovery()
        state = {"n": 0}
        agent = self.w.agent

        def responder(req):
            state["n"] += 1
            if state["n"] == 1:
                return data
            return agent.handle(req)

        self.w.set_responder(responder)
        self.w.seam.reset(budget=30)
        NONADV[0] = 0
        tracemalloc.reset_peak()
        base = tracemalloc.get_traced_memory()[0]
        try:
            try:
                kind, val, steps = budget.run_budgeted(self.call, self.budget_for(len(data)), light=True)
            except rig.BudgetExceeded:
                kind, val, steps = "exc", "request budget", budget.MONITOR.count
            except MemoryError:
                kind, val, steps = "over", "MemoryError", budget.MONITOR.count
        finally:
            self.w.set_responder(agent.handle)
        peak = tracemalloc.get_traced_memory()[1] - base
        return kind, val, steps, peak

    def accepted_other_engine(self):
        """Discovery mode: a request followed the (mutated) discovery reply and it
        names an engine id other than the agent's, i.e. the reply was accepted as
        data."""
        reqs = self.w.seam.requests
        for raw in reqs[1:]:
            try:
                m = ber.decode_message(raw)
            except ber.BerError:
                continue
            if m["version"] == 3 and m["usm"]["engine_id"] not in (b"", self.w.agent.engine_id):
                return True
        return False

    def followup(self):
        """A valid exchange on the same client - itself under a (generous) step budget:
        what an earlier datagram left behind must not make the NEXT request spin."""
        self.w.seam.reset(budget=30)

        def inner():
            try:
                if self.mode == "walk":
                    got = [(rig.oid_t(vb.oid), rig.to_tuple(vb.value)) for vb in self.call()]
                    return got == [(k, DB[k]) for k in K[:3]]
                got = [rig.to_tuple(v) for v in drive(self.w.client.multiget([OID(k) for k in K[:4]]))]
                return got == [DB[k] for k in K[:4]]
            except budget.OverBudget:
                raise
            except Exception:  # noqa: BLE001
                return False

        if Target.A is None:
            return inner()
        kind, val, _ = budget.run_budgeted(inner, 4 * self.budget_for(2000), light=True)
        if kind == "over":
            self.followup_over = True
        return kind == "ok" and bool(val)

    # budgets are installed by calibrate()
    A = B = C = D = None

    def budget_for(self, n):
        return int(Target.A + Target.B * n)

    def heap_for(self, n):
        return int(Target.C + Target.D * n)

    # --- v3 re-signing / re-encryption (the harness owns the real keys) -------
    def resign(self, data):
        if self.user is None or not self.msg["flags"] & 1:
            return None
        a0, a1 = self.msg["auth_span"]
        if len(data) < a1:
            return None
        zeroed = data[:a0] + b"\x00" * 12 + data[a1:]
        digest = ber.hmac96(self.user.auth[0], self.user.auth_key(self.w.agent.engine_id), zeroed)
        return zeroed[:a0] + digest + zeroed[a1:]

    def wrap_plain(self, plain):
        """Encrypt a (mutated) plaintext scoped PDU and sign the message."""
        usm = {k: v for k, v in self.msg["usm"].items() if not k.startswith("_")}
        eng = self.w.agent.engine_id
        cipher, salt = privxf.encrypt(self.user.priv[0], self.user.priv_key(eng), eng, usm["boots"], usm["time"], plain)
        usm["priv"] = salt
        usm["auth"] = b"\x00" * 12
        raw = ber.enc_v3_message({"msg_id": self.msg["msg_id"], "max_size": 65507, "flags": self.msg["flags"], "sec_model": 3, "usm": usm, "encrypted": cipher})
        back = ber.decode_message(raw)
        a0, a1 = back["auth_span"]
        digest = ber.hmac96(self.user.auth[0], self.user.auth_key(eng), raw)
        return raw[:a0] + digest + raw[a1:]


class TrapTarget:
    """The trap listener's datagram path, on a virtual loop with a fake endpoint."""

    def accepted_other_engine(self):
        return False

    level, mode = "v2c", "trap"

    def __init__(self):
        self.loop = VLoop(lambda index: (lambda transport, data: None))
        self.delivered = []
        self.exc_events = []
        self.loop.set_exception_handler(lambda l, ctx: self.exc_events.append(repr(ctx.get("exception"))))

        async def cb(trap):
            self.delivered.append(trap)

        asyncio.set_event_loop(self.loop)
        register_trap_callback(cb, listen_address="127.0.0.1", port=16200, credentials=V2C("public"), loop=self.loop)
        self.protocol = self.loop.transports[0].protocol
        pdu = {"type": ber.PDU_TRAP, "request_id": 42, "error_status": 0, "error_index": 0,
               "varbinds": [((1, 3, 6, 1, 2, 1, 1, 3, 0), ("tt", 4242)), ((1, 3, 6, 1, 6, 3, 1, 1, 4, 1, 0), ("oid", (1, 3, 6, 1, 4, 1, 9, 9, 1))), ((1, 3, 6, 1, 4, 1, 9, 1), ("str", b"payload"))]}
        self.seed = ber.enc_community_message(1, b"public", pdu)
        self.msg = ber.decode_message(self.seed)
        self.user = None
        self.plain = None

    def _push(self, data):
        self.loop.call_soon(self.protocol.datagram_received, data, ("127.0.0.9", 4000))
        self.loop.run_until_complete(asyncio.sleep(0))
        self.loop.run_until_complete(asyncio.sleep(0))

    def deliver(self, data):
        NONADV[0] = 0
        tracemalloc.reset_peak()
        base = tracemalloc.get_traced_memory()[0]
        n0 = len(self.delivered)
        try:
            kind, val, steps = budget.run_budgeted(lambda: self._push(data), int(Target.A + Target.B * len(data)), light=True)
        except MemoryError:
            kind, val, steps = "over", "MemoryError", budget.MONITOR.count
        peak = tracemalloc.get_traced_memory()[1] - base
        if kind == "ok":
            val = "delivered" if len(self.delivered) > n0 else "dropped"
        return kind, val, steps, peak

    def followup(self):
        n0 = len(self.delivered)
        self._push(self.seed)
        return len(self.delivered) == n0 + 1

    def heap_for(self, n):
        return int(Target.C + Target.D * n)

    def budget_for(self, n):
        return int(Target.A + Target.B * n)

    def resign(self, data):
        return None

    def close(self):
        for tr in self.loop.transports:
            tr.close()
        self.loop.run_until_complete(asyncio.sleep(0))
        self.loop.close()


# Fixed budgets.  Measured on the pinned tree (light events): a small exchange
# needs <= ~4 100 steps and <= ~2.1 MB of heap (SNMPv3 derives its keys from a
# 1 MiB buffer per message), large responses <= ~7.5 steps and <= ~40 bytes of
# heap per octet.  The budgets leave a ~10x margin and are absolute, so a
# regression that makes VALID traffic super-linear is caught as well.
BUDGET_A, BUDGET_B = 40_000, 100
BUDGET_C, BUDGET_D = 12 * 2**20, 400


def calibrate(R):
    """Install the budgets and run valid traffic (small and large) under them."""
    Target.A, Target.B, Target.C, Target.D = BUDGET_A, BUDGET_B, BUDGET_C, BUDGET_D
    R.notes["budgets"] = {"a_steps": BUDGET_A, "b_steps_per_octet": BUDGET_B, "c_bytes": BUDGET_C, "d_bytes_per_octet": BUDGET_D}
    tracemalloc.start()
    worst_small = worst_per_octet = 0.0
    for level in ("v1", "v2c", "v3-noauth", "v3-md5", "v3-sha1-priv"):
        for nvb in (1, 4, 60, 400, 1500):
            db = {(1, 3, 6, 1, 4, 1, 9, i): ("str", b"x" * 20) for i in range(nvb)}
            w = World(level, db)
            w.prime()
            oids = [OID(k) for k in sorted(db)]
            for rnd in range(2):
                tracemalloc.reset_peak()
                base = tracemalloc.get_traced_memory()[0]
                n_guess = 60 + 40 * nvb
                kind, val, steps = budget.run_budgeted(lambda: drive(w.client.multiget(oids)), int(BUDGET_A + BUDGET_B * n_guess), light=True)
                peak = tracemalloc.get_traced_memory()[1] - base
                n = len(w.seam.responses[-1]) if w.seam.responses else n_guess
                case = {"level": level, "mode": "valid-traffic", "fault": "none", "pos": nvb, "variant": "valid", "len": n, "datagram": "valid GET response with %d bindings" % nvb}
                R.evaluations += 1
                R.mon["valid_traffic_cases"] += 1
                if kind == "over" or steps > BUDGET_A + BUDGET_B * n:
                    R.violation(case, "VALID %d-octet response needs more than %d logical steps" % (n, BUDGET_A + BUDGET_B * n), None)
                    return False
                if kind != "ok":
                    R.inconclusive("valid exchange failed: %r" % (val,))
                    return False
                if rnd and peak > BUDGET_C + BUDGET_D * n:
                    R.violation(case, "VALID %d-octet response needs %d bytes of heap (> %d)" % (n, peak, BUDGET_C + BUDGET_D * n), None)
                    return False
                if rnd:
                    if nvb <= 4:
                        worst_small = max(worst_small, steps)
                    else:
                        worst_per_octet = max(worst_per_octet, steps / n)
    R.notes["valid_small_steps_max"] = worst_small
    R.notes["valid_steps_per_octet_max"] = round(worst_per_octet, 2)
    return True


def mutations(seed, quick, rng):
    """Yield (kind, pos, bytes): header substitutions first, then truncations, then flips."""
    n = len(seed)
    for (p, what, depth) in ber.tlv_headers(seed):
        for sub in SUBST:
            if seed[p] == sub:
                continue
            d = bytearray(seed)
            d[p] = sub
            yield "hdr-" + what, p * 256 + sub, bytes(d)
    for cut in range(0, n):
        yield "trunc", cut, seed[:cut]
    step = 3 if quick else 1
    for pos in range(0, n * 8, step):
        d = bytearray(seed)
        d[pos // 8] ^= 1 << (pos % 8)
        yield "flip", pos, bytes(d)


def usm_field_edits(t9):
    """Well-formed v3 messages whose USM / header fields take extreme lengths and values."""
    base = {k: v for k, v in t9.msg["usm"].items() if not k.startswith("_")}
    pdu = t9.altered_pdu()
    for field in ("engine_id", "user", "auth", "priv"):
        for n in (0, 1, 11, 13, 32, 33, 255, 1000):
            for flags in (t9.msg["flags"], 0, 1, 3):
                usm = dict(base)
                usm[field] = bytes([0x5A]) * n
                out = {"msg_id": t9.msg["msg_id"], "max_size": 65507, "flags": flags, "sec_model": 3, "usm": usm, "scoped": (t9.engine, t9.ctx_name, pdu)}
                yield "usm-%s-len%d-flags%d" % (field, n, flags), ber.enc_v3_message(out)
    for field in ("boots", "time"):
        for v in (0, -1, 2**31 - 1, 2**31, -(2**31), 2**63, 2**200):
            usm = dict(base)
            usm[field] = v
            out = {"msg_id": t9.msg["msg_id"], "max_size": 65507, "flags": t9.msg["flags"], "sec_model": 3, "usm": usm, "scoped": (t9.engine, t9.ctx_name, pdu)}
            yield "usm-%s-%d" % (field, v if abs(v) < 2**64 else 2**64), ber.enc_v3_message(out)
    for name, raw in usm_retagged(base):
        for flags in (t9.msg["flags"], 0):
            out = {"msg_id": t9.msg["msg_id"], "max_size": 65507, "flags": flags, "sec_model": 3, "usm_raw": raw, "scoped": (t9.engine, t9.ctx_name, pdu)}
            yield "%s-flags%d" % (name, flags), ber.enc_v3_message(out)
    for key, vals in (("msg_id", (0, -1, 2**31, 2**200)), ("max_size", (0, -1, 483, 2**40)), ("sec_model", (0, 1, 2, 4, -1, 2**31)), ("flags", (0, 2, 6, 7, 8, 0xFF))):
        for v in vals:
            out = {"msg_id": t9.msg["msg_id"], "max_size": 65507, "flags": t9.msg["flags"], "sec_model": 3, "usm": dict(base), "scoped": (t9.engine, t9.ctx_name, pdu)}
            out[key] = v
            try:
                yield "hdr-%s-%d" % (key, v if abs(v) < 2**64 else 2**64), ber.enc_v3_message(out)
            except (ValueError, OverflowError):
                pass


BIG_INTS = (0, -1, 2**31 - 1, 2**31, 2**32, -(2**31), 2**63, 2**64, 2**70, -(2**70), 2**200, 2**2000)


RETAG_CONTENTS = (b"\x7f", b"\x08\x00\x00\x00", b"\x7f\xff\xff\xff", b"\x00\x80\x00\x00\x00", b"\x7f\xff\xff\xff\xff\xff\xff", b"\xff", b"")


def usm_retagged(base):
    """USM parameter blocks in which ONE field carries another tag (INTEGER, NULL, a
    SEQUENCE, an application tag) with a short content: a length or a count read from a
    sender-chosen integer must not size an allocation or a loop."""
    order = ("engine_id", "boots", "time", "user", "auth", "priv")

    def enc(field, val):
        return ber.enc_integer(val) if field in ("boots", "time") else ber.enc_octets(val)

    for field in order:
        for tag in (0x02, 0x04, 0x05, 0x30, 0x41, 0x46):
            for content in RETAG_CONTENTS:
                if (tag == 0x04 and field not in ("boots", "time")) or (tag == 0x02 and field in ("boots", "time")):
                    continue
                parts = [ber.tlv(tag, content) if f == field else enc(f, base[f]) for f in order]
                yield "usm-%s-retagged-%02x-%s" % (field, tag, content.hex() or "empty"), ber.tlv(0x30, b"".join(parts))


def discovery_field_edits(t):
    """Well-formed discovery replies (unauthenticated Reports, which the client takes on
    trust) whose fields take extreme values: what is stored from them is used by the
    request that follows, under the same budget."""
    m = t.msg
    base = {k: v for k, v in m["usm"].items() if not k.startswith("_")}
    sc = m["scoped"]

    def build(usm=None, pdu=None, ctx=None, **hdr):
        out = {"msg_id": m["msg_id"], "max_size": m["max_size"], "flags": m["flags"], "sec_model": 3, "usm": usm or dict(base),
               "scoped": (ctx[0] if ctx else sc["ctx_engine"], ctx[1] if ctx else sc["ctx_name"], pdu or sc["pdu"])}
        out.update(hdr)
        return ber.enc_v3_message(out)

    for field in ("boots", "time"):
        for v in BIG_INTS:
            yield "disco-%s-%s" % (field, v if abs(v) < 2**64 else "2^%d" % v.bit_length()), build(usm=dict(base, **{field: v}))
    for v in BIG_INTS:
        yield "disco-boots+time-%s" % (v if abs(v) < 2**64 else "2^%d" % v.bit_length()), build(usm=dict(base, boots=v, time=v))
    for field in ("engine_id", "user", "auth", "priv"):
        for n in (0, 1, 4, 5, 12, 32, 33, 255, 1000, 60000):
            yield "disco-%s-len%d" % (field, n), build(usm=dict(base, **{field: bytes([0x80]) + bytes([0x5A]) * (n - 1) if n else b""}))
    for key in ("msg_id", "max_size", "sec_model"):
        for v in BIG_INTS:
            if key == "msg_id":
                continue  # another message id is not this probe's reply (C12)
            try:
                yield "disco-hdr-%s-%s" % (key, v if abs(v) < 2**64 else "2^%d" % v.bit_length()), build(**{key: v})
            except (ValueError, OverflowError):
                pass
    for flags in (0, 1, 2, 3, 4, 5, 7, 0xFF):
        yield "disco-flags-%d" % flags, build(flags=flags)
    pdu = dict(sc["pdu"])
    for v in BIG_INTS:
        p2 = dict(pdu, varbinds=[(o, ("c32", v) if 0 <= v < 2**32 else ("int", v)) for o, _ in pdu["varbinds"]] or pdu["varbinds"])
        yield "disco-counter-%s" % (v if abs(v) < 2**64 else "2^%d" % v.bit_length()), build(pdu=p2)
        yield "disco-request-id-%s" % (v if abs(v) < 2**64 else "2^%d" % v.bit_length()), build(pdu=dict(pdu, request_id=v))
        yield "disco-error-index-%s" % (v if abs(v) < 2**64 else "2^%d" % v.bit_length()), build(pdu=dict(pdu, error_index=v))
    for n in (0, 1, 5, 32, 1000):
        yield "disco-ctx-engine-len%d" % n, build(ctx=(b"\x80" * n, sc["ctx_name"]))
        yield "disco-ctx-name-len%d" % n, build(ctx=(sc["ctx_engine"], b"n" * n))
    for name, raw in usm_retagged(base):
        out = {"msg_id": m["msg_id"], "max_size": m["max_size"], "flags": m["flags"], "sec_model": 3, "usm_raw": raw, "scoped": (sc["ctx_engine"], sc["ctx_name"], sc["pdu"])}
        yield "disco-" + name, ber.enc_v3_message(out)
    yield "disco-no-bindings", build(pdu=dict(pdu, varbinds=[]))
    yield "disco-many-bindings", build(pdu=dict(pdu, varbinds=list(pdu["varbinds"]) * 200))


def bombs(rng, quick):
    sizes = (64, 1000, 20000) if quick else (64, 1000, 20000, 65507)
    for size in sizes:
        depth = size // 4
        # nested SEQUENCEs with (wrong but plausible) short lengths, and correct long ones
        yield "bomb-seq", size, (b"\x30\x7f" * (size // 2))[:size]
        yield "bomb-seq84", size, (b"\x30\x84\x00\x00\xff\xff" * (size // 6 + 1))[:size]
        yield "bomb-octets", size, (b"\x04\x82\xff\xff" * (size // 4 + 1))[:size]
        inner = b"\x05\x00"
        for _ in range(min(depth, 900)):
            body = inner
            hdr = b"\x30" + ber.enc_len(len(body))
            inner = hdr + body
            if len(inner) > size:
                break
        yield "bomb-wellformed-nesting", size, inner
        yield "bomb-a2-nesting", size, (b"\xa2\x82\x10\x00" * (size // 4 + 1))[:size]
        yield "random", size, bytes(rng.getrandbits(8) for _ in range(size))
        msg = ber.enc_community_message(1, b"public", {"type": 0xA2, "request_id": 1700000000, "error_status": 0, "error_index": 0,
                                                          "varbinds": [((1, 3, 6, 1, 4, 1, 9, i), ("null", None)) for i in range(size // 16)]})
        yield "valid-huge", size, msg
        # the same many-binding message with ONE damaged binding (a SEQUENCE holding only
        # the name, a NULL name, a name cut short) at the end, in the middle, in front:
        # whatever error handling looks for the culprit must not re-scan the whole list
        # per binding
        n = max(size // 9, 3)
        good = [ber.enc_varbind((1, 3, 6, 1, i % 100), ("null", None)) for i in range(n)]
        for bad_name, bad in (("only-name", ber.tlv(0x30, ber.enc_oid((1, 3, 6, 1, 1)))), ("null-name", ber.tlv(0x30, b"\x05\x00\x05\x00")), ("cut-name", ber.tlv(0x30, b"\x06\x03\x2b\x06\x81\x05\x00"))):
            for where in ("last", "middle", "first"):
                vbs = list(good)
                vbs[{"last": -1, "middle": n // 2, "first": 0}[where]] = bad
                body = ber.enc_integer(1700000000) + ber.enc_integer(0) + ber.enc_integer(0) + ber.tlv(0x30, b"".join(vbs))
                yield "huge-one-bad-binding-%s-%s" % (bad_name, where), size, ber.tlv(0x30, ber.enc_integer(1) + ber.enc_octets(b"public") + ber.tlv(0xA2, body))


def run_case(R, t, kind, pos, data, variant):
    case = {"level": t.level, "mode": t.mode, "fault": kind, "pos": pos, "variant": variant, "datagram": "hex:" + data.hex() if len(data) <= 4096 else "len:%d" % len(data), "len": len(data)}
    if len(data) > 4096:
        case["bomb"] = kind
    outcome, val, steps, peak = t.deliver(data)
    R.evaluations += 1
    R.mon["cases_run"] += 1
    key = "bit_flips" if kind == "flip" else "truncations" if kind == "trunc" else "header_substitutions" if kind.startswith("hdr") else "field_level_edits" if kind.startswith("field-") else "bombs_and_random"
    R.mon[key] += 1
    if isinstance(pos, int) and (pos % 16 == 0 or kind.startswith("hdr") or kind.startswith("field-")):
        R.fingerprints.add("%s/%s/%s/%s/%s" % (t.level, t.mode, variant, kind, pos))
    R.notes["max_steps_seen_within_budget"] = max(R.notes.get("max_steps_seen_within_budget", 0), steps if outcome != "over" else 0)
    R.notes["max_heap_seen"] = max(R.notes.get("max_heap_seen", 0), peak)
    if outcome == "ok":
        R.mon["outcome_ok"] += 1
    elif outcome == "exc":
        R.mon["outcome_exception"] += 1
    over_steps = outcome == "over"
    over_heap = peak > t.heap_for(len(data))
    if over_steps or over_heap:
        mech = "x690-indefinite-length-spin" if NONADV[0] > 0 else None
        what = []
        if over_steps:
            what.append("more than %d logical steps for a %d-octet datagram (%s)" % (t.budget_for(len(data)), len(data), val or "still running"))
        if over_heap:
            what.append("heap peak %d bytes > %d" % (peak, t.heap_for(len(data))))
        R.violation(case, "; ".join(what) + "; non-advancing TLV slices observed inside the BER library: %d" % NONADV[0], mech)
    else:
        R.mon["cases_within_budget"] += 1
    if t.mode == "discovery" and t.accepted_other_engine():
        # The mutated discovery reply was ACCEPTED as well-formed discovery data
        # naming another engine id (it raised nothing); that the real agent then
        # refuses the client's requests is a consequence of the data, not of an
        # exception, and outside this property (discovery replies are not
        # authenticated: C12/C09 own what may be trusted).
        R.mon["discovery_accepted_other_engine_id"] += 1
    elif not t.followup():
        spun = getattr(t, "followup_over", False)
        t.followup_over = False
        R.violation(case, "the client is no longer usable: a valid follow-up request %s after this datagram (%s)" % ("exceeded its step budget (still running)" if spun else "failed", outcome), None)
        if spun and t.mode != "trap":
            # do not keep using a client that spins
            t.w = World(t.level, DB)
            if t.mode != "discovery":
                t.w.prime()
    else:
        R.mon["followup_ok"] += 1
    if R.evaluations % 1201 == 7 and len(data) <= 400:
        R.samples.append({k: case[k] for k in ("level", "mode", "fault", "pos", "variant", "len", "datagram")} | {"outcome": outcome if outcome != "exc" else repr(val)[:100], "steps": steps, "heap_peak": peak}) if len(R.samples) < 6 else None


def memory_soak(R):
    """Thousands of datagrams through ONE long-lived client (valid answers, refused ones,
    reports): what the library itself keeps allocated must not grow with their number.
    Only allocations made in /repo/src or in the BER library are counted (the rig's own
    records are cleared and not attributed)."""
    import gc

    from .. import privxf

    site = os.path.dirname(os.path.dirname(__import__("x690").__file__))

    def lib_bytes():
        snap = tracemalloc.take_snapshot().filter_traces([tracemalloc.Filter(True, os.path.join(rig.env.SRC, "*")), tracemalloc.Filter(True, os.path.join(site, "x690", "*"))])
        return sum(st.size for st in snap.statistics("filename"))

    n = 400 if R.tier == "quick" else 12000
    for level in (("v2c", "v3-sha1-priv") if R.tier == "quick" else ("v2c", "v3-md5", "v3-sha1-priv")):
        w = World(level, DB)
        w.prime()
        agent = w.agent
        bad = bytes(bytearray(w.seam.responses[-1] if w.seam.responses else b"\x30\x00"))

        def one(i):
            w.seam.reset(budget=20)
            agent.requests.clear()
            privxf.CALLS.clear()
            if i % 5 == 4:
                # an answer that will be refused (damaged copy of a real response), then a
                # good exchange
                state = {"n": 0}

                def responder(req):
                    state["n"] += 1
                    good = agent.handle(req)
                    if state["n"] == 1 and good:
                        d = bytearray(good)
                        d[len(d) // 2] ^= 0x5A ^ (i & 0xFF)
                        return bytes(d)
                    return good

                w.set_responder(responder)
                try:
                    drive(w.client.get(OID(K[0])))
                except Exception:  # noqa: BLE001
                    pass
                finally:
                    w.set_responder(agent.handle)
            elif i % 5 == 3:
                drive_agen(w.client.walk(OID((1, 3, 6, 1, 2, 1, 1))), limit=50)
            elif i % 5 == 2:
                # the device refuses (the SAME error for the SAME object, poll after poll)
                agent.pdu_hook = lambda req, resp: dict(resp, error_status=17, error_index=1, varbinds=list(req["varbinds"]))
                try:
                    drive(w.client.set(OID(K[0]), rig.from_tuple(("int", 1))))
                except Exception as exc:  # noqa: BLE001
                    one.last_error = exc  # a caller may well keep the last error around
                finally:
                    agent.pdu_hook = None
            else:
                drive(w.client.multiget([OID(k) for k in K[: 1 + i % 4]]))

        for i in range(120):
            one(i)
        gc.collect()
        base = lib_bytes()
        for i in range(n):
            one(i)
        gc.collect()
        grown = lib_bytes() - base
        R.evaluations += n
        R.mon["soak_exchanges"] += n
        R.notes["soak_growth_bytes_%s" % level] = grown
        R.fingerprints.add("%s/soak" % level)
        # a list/dict/cache that gains one small entry per datagram costs >= 60 bytes each
        if grown > 8192 + 16 * n:
            R.violation({"level": level, "mode": "soak", "fault": "%d exchanges on one client" % n, "pos": 0, "variant": "agent", "datagram": "len:0", "len": 0},
                        "memory attributed to the library grew by %d bytes over %d exchanges on one client (%.0f bytes per exchange)" % (grown, n, grown / n), None)
        else:
            R.mon["soak_levels_flat"] += 1


def through_the_udp_sender(R):
    """Datagrams delivered through the library's OWN UDP sender (no sender= seam) on the
    virtual-time loop, with DEBUG logging off and on: zero octets, one octet, lone headers,
    deeply nested values, a large valid response.  The call ends - with a result or an
    exception - after at most `retries` datagrams and within the step budget of the
    octets it was sent, and the client works for the next request."""
    from puresnmp import Client
    from puresnmp.credentials import V2C

    from .. import agent as agent_mod
    from .. import core, vloop

    good_db = {K[0]: DB[K[0]]}
    agent = agent_mod.Agent(good_db, community=b"public")

    def nested(tag, depth, inner=b"\x05\x00"):
        out = inner
        for _ in range(depth):
            out = ber.tlv(tag, out)
        return out

    big_db = {(1, 3, 6, 1, 4, 1, 9, i): ("str", b"y" * 30) for i in range(40)}
    replies = [b"", b"\x00", b"\x30", b"\x30\x00", b"\x02\x01", b"\x30\x84", b"\xff" * 3, b"\x30\x03\x02\x01\x01",
               nested(0x04, 300), nested(0x30, 300), nested(0x04, 120, nested(0x30, 120)), nested(0xA2, 250), ber.tlv(0x30, ber.enc_integer(1) + ber.enc_octets(b"public") + nested(0x30, 200))]
    try:
        for ji, junk in enumerate(replies):
            for retries, debug in ((1, False), (3, True), (2, False), (1, True)):
                if ji < 8 and retries == 2:
                    continue
                core.set_debug_logging(debug)
                state = {"sent": 0, "junk_until": 40, "octets": 0}

                def factory(index, junk=junk, state=state):
                    def script(transport, data):
                        state["sent"] += 1
                        if state["sent"] <= state["junk_until"]:
                            state["octets"] += len(junk)
                            transport.loop.call_later(0.2, transport.deliver, junk, ("192.0.2.1", 161))
                        else:
                            good = agent.handle(data)
                            if good is not None:
                                transport.loop.call_later(0.2, transport.deliver, good, ("192.0.2.1", 161))

                    return script

                loop = vloop.VLoop(factory)
                loop.set_exception_handler(lambda l, ctx: None)
                out = {}

                async def main():
                    client = Client("192.0.2.1", V2C("public"))
                    client.configure(timeout=1, retries=retries)
                    try:
                        out["first"] = ("ok", await client.get(OID(K[0])))
                    except Exception as exc:  # noqa: BLE001
                        out["first"] = ("exc", exc)
                    out["sent_first"] = state["sent"]
                    state["junk_until"] = 0  # from now on the device answers properly
                    try:
                        out["next"] = ("ok", rig.to_tuple(await client.get(OID(K[0]))))
                    except Exception as exc:  # noqa: BLE001
                        out["next"] = ("exc", exc)

                # the loop's own bookkeeping costs steps too: one small-datagram budget per
                # datagram that may leave, plus the per-octet share of what was delivered
                allowed = BUDGET_A * (retries + 3) + BUDGET_B * len(junk) * (retries + 1)
                try:
                    kind, val, steps = budget.run_budgeted(lambda: loop.run_until_complete(main()), allowed, light=True)
                except vloop.Deadlock:
                    kind, steps = "deadlock", 0
                finally:
                    try:
                        loop.close()
                    except Exception:  # noqa: BLE001
                        pass
                R.evaluations += 1
                R.fingerprints.add("udp-sender/%d/%d/%s" % (ji, retries, debug))
                case = {"level": "v2c", "mode": "udp-sender", "fault": "reply #%d (%d octets) through send_udp, retries=%d, DEBUG logging %s" % (ji, len(junk), retries, "on" if debug else "off"), "pos": ji, "variant": "udp-sender", "datagram": "hex:" + junk.hex() if len(junk) <= 4096 else "len:%d" % len(junk), "len": len(junk)}
                sent = out.get("sent_first", state["sent"])
                R.notes["udp_sender_max_steps"] = max(R.notes.get("udp_sender_max_steps", 0), steps)
                if kind == "over":
                    R.violation(case, "a %d-octet reply through the UDP sender (DEBUG logging %s): more than %d logical steps (still running)" % (len(junk), "on" if debug else "off", allowed), None)
                    return
                if kind == "deadlock" or "first" not in out or sent > retries:
                    R.violation(case, "a %d-octet reply through the UDP sender: %d datagrams sent with retries=%d, outcome %r" % (len(junk), sent, retries, out.get("first", kind)), None)
                    return
                if out.get("next") != ("ok", DB[K[0]]):
                    R.violation(case, "after a %d-octet reply the next request on the client gave %r" % (len(junk), out.get("next")), None)
                    return
                R.mon["edge_datagrams_through_the_udp_sender"] += 1
                if debug:
                    R.mon["edge_datagrams_through_the_udp_sender_with_debug_logging"] += 1
    finally:
        core.set_debug_logging(False)


def latched_agents(R):
    """An engine whose boots counter is latched at 2^31-1 answers EVERY authenticated
    request with an authentic notInTimeWindow report (RFC 3414 3.2 (7a)): each datagram
    is perfectly well-formed, and the call still has to end - after a bounded number of
    requests and steps - and so does the next one on the same client."""
    for level, drift in [(lv, d) for d in (False, True) for lv in rig.AUTH_LEVELS]:
        agent_clock = env.Clock()
        agent_clock.now = 1_000_000.0
        w = World(level, DB, agent_kwargs={"boots": 2**31 - 1}, clock=agent_clock)
        if drift:
            # the engine's clock moves on by a second with every datagram it handles, so
            # no two of its reports carry the same engine time: each one is "news"
            def responder(data, inner=w.agent.handle, clock=agent_clock):
                clock.now += 1.0
                return inner(data)

            w.set_responder(responder)
            R.mon["latched_engines_with_a_drifting_clock"] += 1
        for attempt in range(3):
            w.seam.reset(budget=12)
            tracemalloc.reset_peak()
            try:
                kind, val, steps = budget.run_budgeted(lambda: drive(w.client.multiget([OID(k) for k in K[:4]])), 8 * Target.A, light=True)
            except rig.BudgetExceeded:
                kind, val, steps = "requests", None, budget.MONITOR.count
            nreq = len(w.seam.requests)
            R.evaluations += 1
            R.mon["latched_engine_calls"] += 1
            case = {"level": level, "mode": "latched-engine", "fault": "every answer is an authentic notInTimeWindow report", "pos": attempt, "variant": "agent", "datagram": "len:0", "len": 0}
            R.fingerprints.add("%s/latched/%d/%d" % (level, attempt, drift))
            if kind == "over":
                R.violation(case, "more than %d logical steps against an engine that keeps answering notInTimeWindow (%d requests so far)" % (8 * Target.A, nreq), None)
                break
            if kind == "requests" or nreq > 6:
                R.violation(case, "%d requests for one call against an engine that keeps answering notInTimeWindow" % nreq, None)
                break
            if kind != "exc":
                R.violation(case, "a latched engine never accepts a request, yet the call returned %r" % (val,), None)
                break
            R.mon["latched_engine_calls_ended"] += 1


def target_plan(tier):
    if tier == "quick":
        return [("v2c", "get"), ("v3-md5", "get"), ("v3-sha1-priv", "get"), ("v3-noauth", "discovery"), ("v2c", "trap"), ("v1", "get"), ("v2c", "walk"), ("v3-md5", "report")]
    out = []
    for level in rig.LEVELS:
        out.append((level, "get"))
        out.append((level, "walk"))
    for level in rig.V3_LEVELS:
        out.append((level, "discovery"))
    out += [("v3-md5", "report"), ("v3-sha1-priv", "report"), ("v2c", "trap")]
    return out


def run(R):
    faulthandler.enable()
    try:
        resource.setrlimit(resource.RLIMIT_AS, (6 * 2**30, 6 * 2**30))
    except (ValueError, OSError):
        pass
    R.notes["localiser_attached"] = install_localiser()
    if not calibrate(R):
        return
    quick = R.tier == "quick"
    if R.shard == 1 % R.nshards:
        latched_agents(R)
    if R.shard == 2 % R.nshards:
        memory_soak(R)
    if R.shard == 3 % R.nshards:
        through_the_udp_sender(R)
    rng = R.rng("bombs")
    streams = []
    targets = []
    for level, mode in target_plan(R.tier):
        t = TrapTarget() if mode == "trap" else Target(level, mode)
        if not t.followup():
            R.inconclusive("valid traffic does not work for target %s/%s" % (level, mode))
            return
        targets.append(t)

        def stream(t=t, level=level, mode=mode):
            if mode == "get" and level in rig.AUTH_LEVELS:
                # well-formed messages with field-level edits (empty / short / long
                # digest, other users and engines, flag games, Reports ...): the same
                # forgeries C09 judges for acceptance are judged here for time and space
                from . import c09

                t9 = c09.Target(level, "get", 0)
                for name, data in c09.forgeries(t9):
                    yield t, "field-" + name, 0, data, "structural"
                for fields in usm_field_edits(t9):
                    yield t, "field-" + fields[0], 0, fields[1], "structural"
            if mode == "discovery":
                for name, data in discovery_field_edits(t):
                    yield t, "field-" + name, 0, data, "structural"
            variants = [("outer", lambda d: d)]
            if getattr(t, "user", None) is not None and t.msg["flags"] & 1:
                variants.append(("resigned", t.resign))

            def variant_stream(vname, xf):
                for kind, pos, data in mutations(t.seed, quick, rng):
                    d2 = xf(data)
                    if d2 is not None:
                        yield t, kind, pos, d2, vname

            def inner_stream():
                for kind, pos, plain in mutations(t.plain, quick, rng):
                    yield t, kind, pos, t.wrap_plain(plain), "inner-reencrypted"

            def bomb_stream():
                for kind, size, data in bombs(rng, quick):
                    yield t, kind, size, data, "outer"

            # the variants of one target take turns as well (a time cap must not cut the
            # re-signed / re-encrypted ones off behind the plain ones)
            subs = [variant_stream(vname, xf) for vname, xf in variants]
            if getattr(t, "plain", None) is not None:
                subs.append(inner_stream())
            if mode in ("get", "trap") and level in ("v2c", "v3-noauth"):
                subs.append(bomb_stream())
            while subs:
                for g in list(subs):
                    try:
                        yield next(g)
                    except StopIteration:
                        subs.remove(g)
        streams.append(stream())
    # round-robin over the targets, so that a time cap cuts every target evenly
    idx = 0
    complete = True
    live = list(streams)
    while live and complete:
        for st in list(live):
            try:
                t, kind, pos, data, vname = next(st)
            except StopIteration:
                live.remove(st)
                continue
            idx += 1
            if not R.mine(idx):
                continue
            if not R.time_left():
                complete = False
                break
            run_case(R, t, kind, pos, data, vname)
    for t in targets:
        if t.mode == "trap":
            t.close()
    R.exhaustive = complete
    budget.MONITOR.off()
    tracemalloc.stop()


def replay(R, v):
    c = v["case"]
    install_localiser()
    if c.get("mode") == "soak":
        if calibrate(R):
            memory_soak(R)
        return
    if c.get("mode") == "latched-engine":
        if calibrate(R):
            latched_agents(R)
        return
    if c.get("mode") == "udp-sender":
        through_the_udp_sender(R)
        return
    calibrate(R)
    t = TrapTarget() if c["mode"] == "trap" else Target(c["level"], c["mode"])
    if c["datagram"].startswith("hex:"):
        data = bytes.fromhex(c["datagram"][4:])
    else:
        rng = R.rng("bombs")
        data = next(d for k, s, d in bombs(rng, False) if k == c.get("bomb") and len(d) == c["len"])
    run_case(R, t, c["fault"], c["pos"], data, c["variant"])
    budget.MONITOR.off()
