"""
The pythonic view of a received notification (``puresnmp.api.pythonic.TrapInfo``),
without a socket: the Trap object is what the library's own decoder makes of octets
written by the independent encoder, the expected view comes from the model.

Used by C15 (every value type in the payload, built-in types only, equal to the
element-wise pythonisation of the raw bindings) and C17 (sysUpTime over the whole
TimeTicks range); C19 judges the same view on notifications that really arrived on a
listener socket.
"""

import datetime
import ipaddress

from .. import ber, rig

UPTIME = (1, 3, 6, 1, 2, 1, 1, 3, 0)
TRAPOID = (1, 3, 6, 1, 6, 3, 1, 1, 4, 1, 0)
BUILTIN = (str, int, bytes, datetime.timedelta, ipaddress.IPv4Address, type(None))


def decode_trap(vbs, rid=77, addr="192.0.2.7", port=50162, form=None):
    from x690 import decode

    from puresnmp.pdu import Trap
    from puresnmp.typevars import SocketInfo

    raw = ber.enc_pdu({"type": ber.PDU_TRAP, "request_id": rid, "error_status": 0, "error_index": 0, "varbinds": vbs})
    trap, _ = decode(raw, enforce_type=Trap)
    trap.source = SocketInfo(addr, port)
    return trap


def problems(vbs, addr="192.0.2.7"):
    """[] or a list of texts: what TrapInfo shows for a notification with these bindings
    against the model (origin, uptime, trap OID, payload values)."""
    from puresnmp.api.pythonic import TrapInfo
    from puresnmp.varbind import PyVarBind

    out = []
    try:
        trap = decode_trap(vbs, addr=addr)
        info = TrapInfo(trap)
        view = (info.origin, info.uptime, info.oid, info.values)
        raw_payload = {}
        for vb in trap.value.varbinds[2:]:
            p = PyVarBind.from_raw(vb)
            raw_payload[p.oid] = p.value
    except Exception as exc:  # noqa: BLE001 - an outcome
        return ["TrapInfo raised %r for bindings %r" % (exc, str(vbs)[:200])]
    want_vals = {rig.oid_s(o): rig.pythonized(v) for o, v in vbs[2:]}
    want = (addr, rig.pythonized(vbs[0][1]), rig.oid_s(vbs[1][1][1]), want_vals)
    if view != want or [type(x) for x in view[3].values()] != [type(x) for x in want_vals.values()]:
        out.append("TrapInfo view %r, expected %r" % (str(view)[:300], str(want)[:300]))
    if view[3] != raw_payload:
        out.append("TrapInfo.values %r is not the element-wise pythonisation of the raw payload %r" % (str(view[3])[:200], str(raw_payload)[:200]))
    for k, v in view[3].items():
        if type(k) is not str or type(v) not in BUILTIN:
            out.append("TrapInfo.values hands out %r: %r (%s)" % (k, v, type(v).__name__))
    if type(view[1]) is not datetime.timedelta or type(view[2]) is not str or type(view[0]) is not str:
        out.append("TrapInfo origin/uptime/oid types: %s/%s/%s" % (type(view[0]).__name__, type(view[1]).__name__, type(view[2]).__name__))
    return out


def case_of(vbs):
    return {"kind": "trapview", "op": "trapview", "vbs": rig.jsonable(vbs)}


def vbs_of(case):
    out = []
    for o, (kind, x) in case["vbs"]:
        if isinstance(x, str) and x.startswith("hex:"):
            x = bytes.fromhex(x[4:])
        elif isinstance(x, list):
            x = tuple(x)
        out.append((tuple(o), (kind, x)))
    return out


def judge(R, vbs, monitor):
    R.evaluations += 1
    p = problems(vbs)
    if p:
        R.violation(case_of(vbs), "; ".join(p[:2]), None)
        return False
    R.mon[monitor] += 1
    return True
