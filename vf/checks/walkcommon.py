"""
Shared workload + oracle for the walk properties C01 (GETNEXT walks) and
C02 (bulk walks): generated databases and disjoint root lists, the reference
agent behind the recording seam, ground truth computed from the database.
"""

import itertools
from collections import Counter

from .. import rig  # noqa: F401  (bootstraps env first)
from .. import agent as agent_mod
from .. import gen
from ..rig import OID, World, drive_agen, oid_t, to_tuple

WALK_KINDS = ("int", "str", "oid", "ip", "c32", "g32", "tt", "c64")


def enc_db(db):
    return [[list(k), [v[0], rig.jsonable(v[1])]] for k, v in sorted(db.items())]


def _dec_val(v):
    kind, val = v
    if isinstance(val, str) and val.startswith("hex:"):
        val = bytes.fromhex(val[4:])
    elif isinstance(val, list):
        val = tuple(val)
    return (kind, val)


def dec_db(rows):
    return {tuple(k): _dec_val(v) for k, v in rows}


def light_value(rng):
    """Small typed values: walks are about OIDs, values only need a type."""
    kind = rng.choice(WALK_KINDS)
    if kind == "str":
        return (kind, bytes(rng.getrandbits(8) for _ in range(rng.choice((0, 1, 4)))))
    if kind == "oid":
        return (kind, (1, 3, rng.randint(0, 300)))
    if kind == "ip":
        return (kind, bytes(rng.getrandbits(8) for _ in range(4)))
    if kind == "int":
        return (kind, rng.randint(-300, 300))
    if kind == "c64":
        return (kind, rng.randint(0, 2**64 - 1))
    return (kind, rng.randint(0, 2**32 - 1))


def gen_case(rng, max_roots=5):
    n = rng.choice((1, 1, 2, 2, 3, 3, 4, max_roots))
    base, roots = gen.gen_roots(rng, n)
    db = gen.gen_walk_db(rng, base, roots)
    db = {k: light_value(rng) for k in db}
    return roots, db


def root_orders(rng, roots, max_perm_n=4, sample=6):
    if len(roots) <= max_perm_n:
        return [list(p) for p in itertools.permutations(roots)]
    out = [list(roots), list(reversed(roots))]
    for _ in range(sample - 2):
        p = list(roots)
        rng.shuffle(p)
        if p not in out:
            out.append(p)
    return out


def wire_features(agent):
    """
    What the agent actually put on the wire during this walk, reduced to the
    features the known-finding classifiers key on.  Looks only at observed
    request/response pairs.
    """
    feats = Counter()
    for rec in agent.requests:
        pdu = rec.get("pdu")
        resp = rec.get("response_pdu")
        if not pdu or not resp:
            continue
        vbs = resp["varbinds"]
        if pdu["type"] == 0xA1:
            feats["getnext"] += 1
            seen_eomv = False
            for _, val in vbs:
                if val[0] == "eomv":
                    seen_eomv = True
                elif seen_eomv:
                    feats["eomv_before_data"] += 1
                    break
        elif pdu["type"] == 0xA5:
            feats["getbulk"] += 1
            nrep = len(pdu["varbinds"]) - min(max(pdu["error_status"], 0), len(pdu["varbinds"]))
            seen_eomv = False
            for _, val in vbs:
                if val[0] == "eomv":
                    seen_eomv = True
                elif seen_eomv:
                    feats["eomv_before_data"] += 1
                    break
            names = [o for o, v in vbs if v[0] != "eomv"]
            if len(set(names)) != len(names):
                feats["dup_oid_in_response"] += 1
            if nrep and len(vbs) % nrep:
                feats["partial_row"] += 1
            if nrep and len(vbs) < nrep:
                feats["partial_first_row"] += 1
    return feats


def judge(ys, db, roots):
    """
    Compare what a walk yielded with the ground truth.  Returns a list of
    (kind, detail) problems; empty means exact.
    """
    truth = gen.truth_below(db, roots)
    rootset = set(roots)
    problems = []
    seen = Counter(oid for oid, _ in ys)
    for oid, val in ys:
        if oid in truth:
            if val != truth[oid]:
                problems.append(("wrong-value", (oid, val, truth[oid])))
        elif oid in rootset and oid in db:
            if val != db[oid]:
                problems.append(("wrong-value", (oid, val, db[oid])))
        else:
            problems.append(("outside", oid))
    dups = sorted(o for o, c in seen.items() if c > 1)
    if dups:
        problems.append(("dup", dups[:5]))
    lost = sorted(o for o in truth if o not in seen)
    if lost:
        problems.append(("lost", lost[:8]))
    if len(roots) == 1:
        oids = [o for o, _ in ys]
        if any(a >= b for a, b in zip(oids, oids[1:])):
            problems.append(("order", oids[:8]))
    return problems


def abort_walk(w, roots, api, bulk, how, n):
    """
    Start a walk on an already used client and abandon it part-way: the
    consumer stops iterating after n items (how == "stop") or the transport
    times out on request n (how == "timeout").  Nothing is judged here; the
    NEXT complete walk on the same client must still be exact.
    """
    # a caller that keeps its root list and passes the SAME list object again on every
    # walk with this client (a poller): the library must leave it alone
    cache = w.__dict__.setdefault("_root_lists", {})
    key = (tuple(roots), api.startswith("py"))
    if key not in cache:
        cache[key] = ([OID(r) for r in roots], [rig.oid_s(r) for r in roots])
    oids, strs = cache[key]
    before = (list(oids), list(strs))
    c, p = w.client, w.py
    if api == "multiwalk":
        agen = c.multiwalk(oids)
    elif api == "pymultiwalk":
        agen = p.multiwalk(strs)
    elif api == "bulkwalk":
        agen = c.bulkwalk(oids, bulk_size=bulk)
    elif api == "pybulkwalk":
        agen = p.bulkwalk(strs, bulk_size=bulk)
    else:
        raise ValueError(api)
    w.seam.reset(budget=60)
    inner = w.seam.responder
    count = {"n": 0}

    def lossy(data):
        count["n"] += 1
        if how == "timeout" and count["n"] > n:
            return None  # -> puresnmp.exc.Timeout, like the real UDP sender
        return inner(data)

    w.seam.responder = lossy

    async def partial():
        got = 0
        try:
            async for _ in agen:
                got += 1
                if how == "stop" and got >= n:
                    break
        finally:
            await agen.aclose()
        return got

    try:
        try:
            rig._run(partial())
        except Exception:  # noqa: BLE001 - Timeout etc.: that IS the abort
            pass
    finally:
        w.seam.responder = inner
        w.seam.reset()


def run_walk(level, db, roots, api, bulk=None, policy=None, policy_seed=0, w=None, reboot_at=None):
    """
    Execute one walk through the public API against a fresh agent.
    Returns (outcome, yielded, world).  outcome: "ok" | "budget" | exception.
    """
    import random

    kw = {}
    if policy is not None:
        kw["bulk_policy"] = agent_mod.BulkPolicy(policy, random.Random(policy_seed))
    if w is None:
        w = World(level, db, agent_kwargs=kw)
    else:
        # a client that has already walked: nothing may be carried over
        w.seam.reset()
        w.agent.requests.clear()
    truth = gen.truth_below(db, roots)
    w.seam.budget = 4 * (len(truth) + len(roots)) + 8 + 1 + 2
    # the same list objects on every walk with this client (see abort_walk)
    cache = w.__dict__.setdefault("_root_lists", {})
    key = (tuple(roots), api.startswith("py"))
    if key not in cache:
        cache[key] = ([OID(r) for r in roots], [rig.oid_s(r) for r in roots])
    oids, strs = cache[key]
    before = (list(oids), list(strs))
    c, p = w.client, w.py
    if api == "walk":
        agen = c.walk(oids[0])
    elif api == "multiwalk":
        agen = c.multiwalk(oids)
    elif api == "pywalk":
        agen = p.walk(strs[0])
    elif api == "pymultiwalk":
        agen = p.multiwalk(strs)
    elif api == "fetcherwalk":
        # the documented ``fetcher=`` argument with a fetcher of the caller's own: a pacing
        # wrapper around the public multigetnext (which hands back no binding once the
        # agent reports the end of the view)
        import asyncio

        async def own_fetcher(wanted):
            await asyncio.sleep(0)
            return await c.multigetnext(wanted)

        agen = c.multiwalk(oids, fetcher=own_fetcher)
    elif api == "bulkwalk":
        # bulk None: the caller leaves bulk_size at its default
        agen = c.bulkwalk(oids, bulk_size=bulk) if bulk is not None else c.bulkwalk(oids)
    elif api == "pybulkwalk":
        agen = p.bulkwalk(strs, bulk_size=bulk) if bulk is not None else p.bulkwalk(strs)
    else:
        raise ValueError(api)
    if reboot_at is not None:
        # the device reboots while the walk is under way (before it answers request
        # number reboot_at): an authenticated client re-synchronises and carries on
        inner, seen = w.seam.responder, {"n": 0}

        def rebooting(data):
            seen["n"] += 1
            if seen["n"] == reboot_at:
                w.agent.reboot()
            return inner(data)

        w.seam.responder = rebooting
        w.seam.budget += 4
    try:
        rows = drive_agen(agen, limit=len(db) * 3 + 50)
    except rig.BudgetExceeded:
        return "budget", [], w
    except Exception as exc:  # noqa: BLE001
        return exc, [], w
    finally:
        if reboot_at is not None:
            w.seam.responder = inner
        if (list(oids), list(strs)) != before:
            w.__dict__["_root_lists"].pop(key, None)
            return ArgumentMutated("the caller's root list was changed by the walk: %r -> %r" % ([str(o) for o in before[0]], [str(o) for o in oids])), [], w
    ys = []
    w.last_rows = rows
    if api.startswith("py"):
        for vb in rows:
            ys.append((oid_t(vb.oid), ("py", vb.value)))
    else:
        for vb in rows:
            ys.append((oid_t(vb.oid), to_tuple(vb.value)))
    return "ok", ys, w


def judge_py(ys, db, roots):
    """For pythonic walks compare pythonised values."""
    conv = {k: ("py", rig.pythonized(v)) for k, v in db.items()}
    return judge(ys, conv, roots)


class ArgumentMutated(Exception):
    """The library changed an argument object that belongs to the caller."""


def boundary_cases():
    """
    Deterministic (label, roots, db) cases at structural boundaries that a random
    generator all but never produces: the zero-length root (the whole MIB view),
    more than 256 roots in one walk, instance OIDs of exactly 126/127/128
    sub-identifiers (128 is the SMI maximum), sub-identifiers at the BER and
    32-bit boundaries, a root that is a single arc.
    """
    out = []
    whole = {(0, 0): ("int", 4), (0, 39, 1): ("int", 5), (1, 3, 1, 1): ("int", 1), (1, 3, 2, 5): ("str", b"x"), (1, 39, 7): ("int", 6), (2, 5, 1): ("int", 3), (2, 39, 4): ("tt", 9)}
    out.append(("empty-root", [()], whole))
    out.append(("empty-root-empty-view", [()], {}))
    for n in (256, 257, 300):
        roots = [(1, 3, 6, 1, 4, 1, i) for i in range(1, n + 1)]
        db = {r + (1,): ("int", i) for i, r in enumerate(roots)}
        db.update({r + (2, 0): ("int", -i) for i, r in enumerate(roots[::3])})
        out.append(("%d-roots" % n, roots, db))
    root = (1, 3, 6, 1, 4, 1, 9)
    long_db = {root + (1,) * k: ("int", k) for k in (1, 100, 118, 119, 120, 121)}
    long_db[root + (2,) * 121] = ("str", b"last")
    long_db[(1, 3, 6, 1, 4, 1, 10, 0)] = ("int", 0)
    out.append(("oids-of-126-127-128-arcs", [root], long_db))
    root2 = (1, 3, 6, 1, 4, 1, 11)
    two = dict(long_db)
    two.update({root2 + (7,) * k: ("int", k) for k in (119, 120, 121)})
    out.append(("two-roots-128-arcs", [root, root2], two))
    arcs = (0, 1, 127, 128, 16383, 16384, 2**21 - 1, 2**21, 2**28 - 1, 2**28, 2**31 - 1, 2**31, 2**32 - 2, 2**32 - 1)
    big = {root + (a,): ("int", i) for i, a in enumerate(arcs)}
    big.update({root + (a, a): ("int", -i) for i, a in enumerate(arcs)})
    big[root[:-1] + (2**32 - 1, 1)] = ("int", 0)
    out.append(("arc-boundaries", [root], big))
    out.append(("arc-boundary-roots", [root + (2**32 - 1,), root + (127,), root + (128,), root + (2**31,)], big))
    x = (1, 3, 6, 1, 4, 1, 12)
    sib = {}
    for a in (1, 10, 11, 12, 19, 2, 20, 21, 100, 3):
        sib[x + (a, 1)] = ("int", a)
        sib[x + (a, 2, 0)] = ("int", -a)
    out.append(("decimal-prefix-sibling-roots", [x + (1,), x + (11,), x + (2,), x + (21,), x + (10,), x + (100,)], sib))
    out.append(("decimal-prefix-sibling-roots-2", [x + (11,), x + (1,)], sib))
    return out
