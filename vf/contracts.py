"""
Record-and-return-True contract shim (DESIGN 2.8).

``attach(owner, name, post=..., pre=...)`` wraps ``owner.name`` (a function or
method found on a module or class) so that ``post(result, *args, **kwargs)``
/ ``pre(*args, **kwargs)`` are evaluated on every call.  A condition returns
None/True when satisfied and a string describing the breach otherwise; a
breach is *recorded*, never raised, so a contract cannot change what it
observes.  References bound before attachment bypass the contract: every
contract counts its evaluations and callers treat zero as inconclusive.
"""

import functools


class Contract:
    def __init__(self, owner, name, pre=None, post=None):
        self.owner = owner
        self.name = name
        self.pre = pre
        self.post = post
        self.evaluations = 0
        self.breaches = []
        self.original = None
        self.attached = False

    def attach(self):
        try:
            orig = self.owner.__dict__[self.name] if isinstance(self.owner, type) else getattr(self.owner, self.name)
        except (KeyError, AttributeError):
            return self
        self.original = orig
        kind = None
        fn = orig
        if isinstance(orig, staticmethod):
            kind, fn = staticmethod, orig.__func__
        elif isinstance(orig, classmethod):
            kind, fn = classmethod, orig.__func__
        contract = self

        @functools.wraps(fn)
        def wrapper(*args, **kwargs):
            if contract.pre is not None:
                try:
                    msg = contract.pre(*args, **kwargs)
                except Exception as exc:  # noqa: BLE001
                    msg = "precondition crashed: %r" % (exc,)
                if isinstance(msg, str):
                    contract._breach("pre", msg, args)
            result = fn(*args, **kwargs)
            contract.evaluations += 1
            if contract.post is not None:
                try:
                    msg = contract.post(result, *args, **kwargs)
                except Exception as exc:  # noqa: BLE001
                    msg = "postcondition crashed: %r" % (exc,)
                if isinstance(msg, str):
                    contract._breach("post", msg, args)
            return result

        setattr(self.owner, self.name, kind(wrapper) if kind else wrapper)
        self.attached = True
        return self

    def detach(self):
        if self.attached:
            setattr(self.owner, self.name, self.original)
            self.attached = False

    def _breach(self, where, msg, args):
        if len(self.breaches) < 50:
            self.breaches.append({"where": where, "contract": "%s.%s" % (getattr(self.owner, "__name__", self.owner), self.name), "detail": msg, "args": repr(args)[:300]})


def attach(owner, name, pre=None, post=None):
    return Contract(owner, name, pre, post).attach()
