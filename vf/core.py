"""
Run bookkeeping shared by every check: case accounting, verdict discipline,
known-finding classification, evidence and replay files.
"""

import hashlib
import json
import os
import random
import socket
import sys
import time
from collections import Counter

VERIF_DIR = os.path.dirname(os.path.dirname(os.path.abspath(__file__)))
EVIDENCE_DIR = os.path.join(VERIF_DIR, "evidence")
REPLAY_DIR = os.path.join(VERIF_DIR, "replays")
FINDINGS_FILE = os.path.join(VERIF_DIR, "known_findings.json")

# captured at import, before vf.env may install a virtual monotonic clock (C12)
_MONO = time.monotonic

MAX_SAMPLES = 6
MAX_VIOLATIONS_KEPT = 25

_INET_SOCKETS = [0]
_AUDIT_INSTALLED = [False]


def install_socket_audit():
    """Count AF_INET/AF_INET6 sockets created in this process."""
    if _AUDIT_INSTALLED[0]:
        return
    _AUDIT_INSTALLED[0] = True
    inet = (int(socket.AF_INET), int(socket.AF_INET6))

    def hook(event, args):
        if event == "socket.__new__":
            try:
                if int(args[1]) in inet:
                    _INET_SOCKETS[0] += 1
            except Exception:  # noqa: BLE001
                pass

    sys.addaudithook(hook)


def inet_sockets_opened():
    return _INET_SOCKETS[0]


# ---------------------------------------------------------------------------
# reach monitor: which functions of the code under test did the workload enter?
# ---------------------------------------------------------------------------

_REACHED = set()
_REACH_ON = [False]


def install_reach_monitor(src_dir):
    """
    sys.monitoring PY_START on tool id 4; every code object of puresnmp /
    puresnmp_plugins reports once and is then DISABLEd, so the cost is nil.
    Evidence only: shows that the anchored code really ran.
    """
    if _REACH_ON[0]:
        return
    mon = sys.monitoring
    prefixes = (os.path.join(src_dir, "puresnmp") + os.sep, os.path.join(src_dir, "puresnmp_plugins") + os.sep)
    cut = len(src_dir.rstrip(os.sep)) + 1

    def cb(code, offset):
        fn = code.co_filename
        if fn.startswith(prefixes):
            _REACHED.add("%s:%s" % (fn[cut:], code.co_qualname))
        return mon.DISABLE

    try:
        mon.use_tool_id(4, "vf-reach")
    except ValueError:
        return
    mon.register_callback(4, mon.events.PY_START, cb)
    mon.set_events(4, mon.events.PY_START)
    _REACH_ON[0] = True


class _FormatAndDrop:
    """logging handler: formats every record (so that a broken format string or a
    failing __repr__ shows) and drops the text."""

    level = 0

    def __init__(self):
        import logging

        class H(logging.Handler):
            def emit(self, record):
                self.format(record)

        self.handler = H()
        self.handler.setFormatter(logging.Formatter("%(name)s %(message)s"))


_LOGSTATE = {"handler": None, "on": None}


def set_debug_logging(on):
    import logging

    if _LOGSTATE["handler"] is None:
        _LOGSTATE["handler"] = _FormatAndDrop().handler
        for name in ("puresnmp", "puresnmp_plugins", "x690"):
            lg = logging.getLogger(name)
            lg.addHandler(_LOGSTATE["handler"])
            lg.propagate = False
    if _LOGSTATE["on"] == on:
        return
    _LOGSTATE["on"] = on
    for name in ("puresnmp", "puresnmp_plugins", "x690"):
        logging.getLogger(name).setLevel(logging.DEBUG if on else logging.WARNING)


def load_findings():
    try:
        with open(FINDINGS_FILE) as fh:
            data = json.load(fh)
    except FileNotFoundError:
        return []
    return data.get("findings", [])


def fp_hash(obj):
    return hashlib.sha1(
        json.dumps(obj, sort_keys=True, default=repr).encode()
    ).hexdigest()[:14]


class Run:
    """State of one (shard of a) check run."""

    def __init__(self, prop, tier, seed, shard=0, nshards=1, time_cap=None):
        self.prop = prop
        self.tier = tier
        self.seed = seed
        self.shard = shard
        self.nshards = nshards
        self.t0 = _MONO()
        self.time_cap = time_cap
        self.evaluations = 0
        self.fingerprints = set()
        self.samples = []
        self.violations = []
        self.n_violations = 0
        self.known = {}
        self.mon = Counter()
        self.notes = {}
        self.inconclusive_reasons = []
        self.exhaustive = None
        self.capped = False
        self._known_mechs = {
            f["mechanism"]: f
            for f in load_findings()
            if f.get("property") == prop and f.get("status") == "known"
        }

    # -- generation helpers ---------------------------------------------------

    def rng(self, *index):
        return random.Random(
            "%s:%s:%s" % (self.seed, self.prop, ":".join(str(i) for i in index))
        )

    def mine(self, i):
        return i % self.nshards == self.shard

    def time_left(self, frac=1.0):
        """False once ``frac`` of the time cap is used up (a block of a check may be
        given a share of the cap so that the blocks behind it are never starved)."""
        if self.time_cap is None:
            return True
        left = _MONO() - self.t0 < self.time_cap * frac
        if not left:
            self.capped = True
        return left

    # -- accounting -------------------------------------------------------------

    def tick(self):
        """
        Alternate the library's log level between the default and DEBUG from one
        case to the next: DEBUG logging is process-wide state that switches on
        otherwise dead code (guarded ``LOG.isEnabledFor(DEBUG)`` blocks, message
        formatting).  The records are formatted and thrown away.
        """
        self._ticks = getattr(self, "_ticks", 0) + 1
        set_debug_logging(self._ticks % 2 == 1)
        self.mon["cases_run_with_debug_logging" if self._ticks % 2 == 0 else "cases_run_with_default_logging"] += 1

    def case(self, fingerprint=None, nontrivial=True, sample=None):
        """Account one executed case."""
        self.tick()
        self.evaluations += 1
        if nontrivial and fingerprint is not None:
            self.fingerprints.add(
                fingerprint if isinstance(fingerprint, str) else fp_hash(fingerprint)
            )
        if sample is not None and len(self.samples) < MAX_SAMPLES:
            self.samples.append(sample)

    def violation(self, case, detail, mechanism=None):
        """
        Report a violating case.  ``mechanism`` is the classifier's verdict on
        what was observed; a case is excused only when that mechanism is listed
        as ``known`` in known_findings.json.
        """
        if mechanism is not None and mechanism in self._known_mechs:
            slot = self.known.setdefault(
                mechanism, {"count": 0, "witness": case, "detail": detail}
            )
            slot["count"] += 1
            self.mon["known_by_mechanism:%s" % mechanism] += 1
            return False
        self.n_violations += 1
        self.mon["violations_by_mechanism:%s" % mechanism] += 1
        # the hash seed of this shard's interpreter is part of what reproduces the case
        entry = {"mechanism": mechanism, "case": case, "detail": detail, "hashseed": os.environ.get("PYTHONHASHSEED", "0"), "optimise": bool(sys.flags.optimize)}
        per_mech = sum(1 for v in self.violations if v["mechanism"] == mechanism)
        if len(self.violations) < MAX_VIOLATIONS_KEPT and per_mech < 6:
            self.violations.append(entry)
        return True

    def inconclusive(self, reason):
        self.inconclusive_reasons.append(reason)

    # -- (de)serialisation for shards ------------------------------------------

    def dump(self):
        return {
            "evaluations": self.evaluations,
            "fingerprints": sorted(self.fingerprints),
            "samples": self.samples,
            "violations": self.violations,
            "n_violations": self.n_violations,
            "known": self.known,
            "mon": dict(self.mon),
            "notes": self.notes,
            "inconclusive": self.inconclusive_reasons,
            "exhaustive": self.exhaustive,
            "capped": self.capped,
            "inet_sockets": inet_sockets_opened(),
            "reached": sorted(_REACHED),
        }


def merge(dumps):
    out = {
        "evaluations": 0,
        "fingerprints": set(),
        "samples": [],
        "violations": [],
        "n_violations": 0,
        "known": {},
        "mon": Counter(),
        "notes": {},
        "inconclusive": [],
        "exhaustive": None,
        "capped": False,
        "inet_sockets": 0,
        "reached": set(),
    }
    exh = []
    for d in dumps:
        out["evaluations"] += d["evaluations"]
        out["fingerprints"].update(d["fingerprints"])
        for s in d["samples"]:
            if len(out["samples"]) < MAX_SAMPLES:
                out["samples"].append(s)
        out["violations"].extend(d["violations"])
        out["n_violations"] += d["n_violations"]
        for mech, slot in d["known"].items():
            cur = out["known"].setdefault(
                mech,
                {"count": 0, "witness": slot["witness"], "detail": slot["detail"]},
            )
            cur["count"] += slot["count"]
        out["mon"].update(d["mon"])
        for k, v in d["notes"].items():
            if k.startswith("set:"):
                # union across shards
                out["notes"][k] = sorted(set(out["notes"].get(k, [])) | set(v))
            else:
                out["notes"].setdefault(k, v)
        out["inconclusive"].extend(d["inconclusive"])
        exh.append(d["exhaustive"])
        out["capped"] = out["capped"] or d["capped"]
        out["inet_sockets"] += d.get("inet_sockets", 0)
        out["reached"].update(d.get("reached", ()))
    if exh and all(e is True for e in exh):
        out["exhaustive"] = True
    elif any(e is not None for e in exh):
        out["exhaustive"] = False
    out["violations"].sort(key=lambda v: (v["mechanism"] is not None, str(v["mechanism"])))
    out["violations"] = out["violations"][:MAX_VIOLATIONS_KEPT]
    return out


def anchor_reach(prop, reached):
    """
    Match the functions the workload entered against the property's anchors
    (properties.jsonl).  Returns (summary dict, list of anchor files in which
    nothing at all was entered).
    """
    import re

    try:
        with open(os.path.join(VERIF_DIR, "properties.jsonl")) as fh:
            props = {json.loads(l)["id"]: json.loads(l) for l in fh if l.strip()}
    except OSError:
        return {}, []
    p = props.get(prop)
    if not p:
        return {}, []
    by_file = {}
    for item in reached:
        f, q = item.split(":", 1)
        by_file.setdefault("src/" + f, set()).add(q)
    out = {"functions_entered": len(reached), "anchor_files": {}, "anchor_mechanisms": []}
    silent = []
    for f in p["anchors"].get("files", []):
        n = len(by_file.get(f, ()))
        out["anchor_files"][f] = n
        if n == 0:
            silent.append(f)
    for m in p["anchors"].get("mechanism", []):
        where = m.get("where", "")
        names = set(re.findall(r"[A-Za-z_][A-Za-z_0-9]*(?:\.[A-Za-z_][A-Za-z_0-9]*)*", where.split(":", 1)[-1] if ":" in where else ""))
        hit = sorted({q for qs in by_file.values() for q in qs for n in names if q == n or q.endswith("." + n.split(".")[-1]) or q.split(".<locals>.")[0].endswith(n.split(".")[-1])})
        out["anchor_mechanisms"].append({"where": where[:120], "entered": hit[:8]})
    return out, silent


def write_replay(prop, violation):
    os.makedirs(os.path.join(REPLAY_DIR, prop), exist_ok=True)
    name = fp_hash(violation) + ".json"
    path = os.path.join(REPLAY_DIR, prop, name)
    with open(path, "w") as fh:
        json.dump(violation, fh, indent=1, default=repr, sort_keys=True)
    return path


def write_evidence(prop, payload):
    os.makedirs(EVIDENCE_DIR, exist_ok=True)
    path = os.path.join(EVIDENCE_DIR, prop + ".json")
    tmp = path + ".tmp"
    with open(tmp, "w") as fh:
        json.dump(payload, fh, indent=1, default=repr, sort_keys=True)
    os.replace(tmp, path)
    return path
