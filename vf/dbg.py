"""Debug helper: run a check in-process (one shard) and group violations."""
import sys, collections, importlib, os
from . import core
core.MAX_VIOLATIONS_KEPT = 10**9
def main():
    prop = sys.argv[1].upper()
    tier = os.environ.get("VERIF_TIER", "quick")
    shard, n = (sys.argv[2].split("/") + ["1"])[:2] if len(sys.argv) > 2 else ("0", "8")
    mod = importlib.import_module("vf.checks." + prop.lower())
    R = core.Run(prop, tier, int(os.environ.get("VERIF_SEED", "0")), int(shard), int(n), time_cap=getattr(mod, "TIME_CAP", {}).get(tier))
    orig = R.violation
    groups = collections.Counter(); first = {}
    def violation(case, detail, mechanism=None):
        import re
        key = (mechanism, re.sub(r"[0-9]+", "N", str(detail))[:110])
        groups[key] += 1
        first.setdefault(key, (case, detail))
        return orig(case, detail, mechanism)
    R.violation = violation
    mod.run(R)
    for key, cnt in groups.most_common():
        print(cnt, key)
        if "-v" in sys.argv:
            print("    ", str(first[key])[:1500])
    print("evaluations", R.evaluations, "distinct", len(R.fingerprints), "inconclusive", R.inconclusive_reasons)
    for k, v in sorted(R.mon.items()): print("  ", k, v)
main()
