"""
Process bootstrap for every harness process.  MUST be imported before
anything imports puresnmp:

* puts ``$VERIF_REPO/src`` (default /repo/src) first on sys.path and removes
  any other checkout of puresnmp from it, so the checks always exercise the
  current working tree (or a scratch mutant);
* puts the harness plug-in directory on sys.path (PEP 420 namespace
  ``puresnmp_plugins.priv``);
* installs the rig clock into ``time.time`` (puresnmp.util binds it with
  ``from time import time`` at import).
"""

import os
import sys
import time as _time

VERIF_DIR = os.path.dirname(os.path.dirname(os.path.abspath(__file__)))
REPO = os.path.abspath(os.environ.get("VERIF_REPO", "/repo"))
SRC = os.path.join(REPO, "src")
PLUGIN_DIR = os.path.join(VERIF_DIR, "vf", "plugins")

sys.dont_write_bytecode = True
os.environ.setdefault("PURESNMP_VERIF", "1")


class Clock:
    """
    The rig clock.

    mode "frozen":   every read returns ``now``
    mode "stepping": every read first advances ``now`` by the next increment
                     drawn from ``steps`` (a callable returning a float)
    """

    def __init__(self):
        self.now = 1_700_000_000.0
        self.mode = "frozen"
        self.steps = None
        self.reads = 0
        # what the WALL clock (time.time) shows on top of the time that really passed:
        # an administrator / NTP stepping the clock changes this, never ``now``
        self.wall_offset = 0.0

    def read(self):
        self.reads += 1
        if self.mode == "stepping" and self.steps is not None:
            self.now += self.steps()
        return self.now + self.wall_offset

    def freeze(self, now=None):
        self.mode = "frozen"
        self.steps = None
        if now is not None:
            self.now = float(now)

    def stepping(self, steps):
        self.mode = "stepping"
        self.steps = steps

    def advance(self, seconds):
        self.now += seconds


CLOCK = Clock()
REAL_TIME = _time.time
REAL_MONOTONIC = _time.monotonic


def _install():
    if "puresnmp" in sys.modules:
        raise RuntimeError("vf.env must be imported before puresnmp")
    keep = []
    for entry in sys.path:
        full = os.path.abspath(entry or os.getcwd())
        if full != SRC and os.path.isdir(os.path.join(full, "puresnmp")):
            continue
        keep.append(entry)
    sys.path[:] = [SRC, PLUGIN_DIR] + [
        e for e in keep if os.path.abspath(e or os.getcwd()) not in (SRC, PLUGIN_DIR)
    ]
    if VERIF_DIR not in [os.path.abspath(p or os.getcwd()) for p in sys.path]:
        sys.path.append(VERIF_DIR)
    _time.time = CLOCK.read
    if os.environ.get("VF_VIRTUAL_MONOTONIC") == "1":
        # C12 only (no event loop is used there): elapsed-time measurements of
        # the code under test follow the same virtual clock whichever source
        # (time.time / time.monotonic) it uses.  Installed before puresnmp is
        # imported so that ``from time import monotonic`` binds it as well.
        _time.monotonic = lambda: CLOCK.now - 1_600_000_000.0


_install()
VIRTUAL_MONOTONIC = os.environ.get("VF_VIRTUAL_MONOTONIC") == "1"

import logging  # noqa: E402
import warnings  # noqa: E402

# puresnmp logs a warning per aborted walk; keep harness output readable
logging.getLogger().addHandler(logging.NullHandler())

warnings.filterwarnings("ignore", message="Experimental SNMPv1 support")

import puresnmp  # noqa: E402

if not os.path.abspath(puresnmp.__file__).startswith(SRC + os.sep):
    raise RuntimeError(
        "puresnmp imported from %s, expected below %s" % (puresnmp.__file__, SRC)
    )
import puresnmp.util as _util  # noqa: E402

CLOCK_BOUND = _util.time is CLOCK.read
