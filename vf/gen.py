"""
Generators shared by the checks: typed values, agent databases, disjoint
root lists, conceptual tables.
"""

import itertools

SUBID_POOL = (0, 1, 2, 3, 5, 7, 127, 128, 255, 256, 16383, 16384, 2**31, 2**32 - 1)

VALUE_KINDS = ("int", "str", "oid", "ip", "c32", "g32", "tt", "opaque", "c64")


def gen_value(rng, kinds=VALUE_KINDS):
    kind = rng.choice(kinds)
    if kind == "int":
        return (kind, rng.choice([0, 1, -1, 127, 128, -128, -129, 2**31 - 1, -(2**31), rng.randint(-(2**31), 2**31 - 1)]))
    if kind == "str":
        n = rng.choice([0, 1, 2, 5, 20, 127, 128, 300])
        return (kind, bytes(rng.getrandbits(8) for _ in range(n)))
    if kind == "oid":
        if rng.random() < 0.08:
            return (kind, ())  # the zero-length "null OID" (06 00) some agents send
        if rng.random() < 0.05:
            return (kind, (0, 0))
        n = rng.randint(0, 6)
        return (kind, (1, 3) + tuple(rng.choice(SUBID_POOL) for _ in range(n)))
    if kind == "ip":
        if rng.random() < 0.1:
            return (kind, b"\x00\x00\x00\x00")
        return (kind, bytes(rng.getrandbits(8) for _ in range(4)))
    if kind in ("c32", "g32", "tt"):
        return (kind, rng.choice([0, 1, 127, 128, 2**31 - 1, 2**31, 2**32 - 1, rng.randint(0, 2**32 - 1)]))
    if kind == "opaque":
        n = rng.choice([0, 1, 7, 130])
        return (kind, bytes(rng.getrandbits(8) for _ in range(n)))
    if kind == "c64":
        return (kind, rng.choice([0, 1, 2**32, 2**63, 2**64 - 1, rng.randint(0, 2**64 - 1)]))
    raise ValueError(kind)


def is_prefix(a, b):
    """True when a is a (non-strict) prefix of b."""
    return len(a) <= len(b) and b[: len(a)] == a


def strictly_below(oid, root):
    return len(oid) > len(root) and oid[: len(root)] == root


def disjoint(roots):
    for a, b in itertools.combinations(roots, 2):
        if is_prefix(a, b) or is_prefix(b, a):
            return False
    return True


def gen_roots(rng, n):
    """n pairwise disjoint roots below a common base, siblings or nested."""
    base = (1, 3) + tuple(rng.choice((1, 6, 127, 128, 40000)) for _ in range(rng.randint(0, 3)))
    roots = []
    tries = 0
    start = rng.choice((1, 2, 5, 126, 127, 300))
    while len(roots) < n and tries < 200:
        tries += 1
        style = rng.random()
        if style < 0.45 and roots:
            # adjacent sibling of an existing root
            r = rng.choice(roots)
            cand = r[:-1] + (r[-1] + rng.choice((1, 1, 2)),)
        elif style < 0.7:
            cand = base + (start + rng.randint(0, 12),)
        elif style < 0.9:
            cand = base + (start + rng.randint(0, 6), rng.choice(SUBID_POOL[:9]))
        else:
            cand = base + (rng.choice(SUBID_POOL), rng.choice((1, 2)), rng.choice((1, 9)))
        if cand not in roots and disjoint(roots + [cand]):
            roots.append(cand)
    return base, roots


SIZE_POOL = (0, 0, 1, 2, 3, 5, 9, 40)


def gen_suffix(rng):
    n = rng.choice((1, 1, 1, 2, 3))
    return tuple(rng.choice(SUBID_POOL[:11]) if rng.random() < 0.5 else rng.randint(0, 30) for _ in range(n))


def gen_walk_db(rng, base, roots, sizes=SIZE_POOL, kinds=VALUE_KINDS):
    """
    A database with instances below the roots, plus neighbours before,
    between and after them, optionally nothing after the last root (so the
    last subtree ends at endOfMibView).
    """
    db = {}
    for root in roots:
        size = rng.choice(sizes)
        guard = 0
        made = 0
        while made < size and guard < size * 5 + 5:
            guard += 1
            oid = root + gen_suffix(rng)
            if oid not in db:
                db[oid] = gen_value(rng, kinds)
                made += 1
        if rng.random() < 0.12:
            db[root] = gen_value(rng, kinds)  # an instance AT the root OID
    # neighbours
    if rng.random() < 0.6:
        db[(1, 2, 840)] = gen_value(rng, kinds)
        db[base[:-1] + (0,) if len(base) > 2 else (1, 3, 0)] = gen_value(rng, kinds)
    n_between = rng.choice((0, 0, 1, 3))
    for _ in range(n_between):
        r = rng.choice(roots)
        cand = r[:-1] + (max(r[-1] + rng.choice((-1, 1, 2)), 0),) + gen_suffix(rng)
        if not any(is_prefix(x, cand) for x in roots):
            db[cand] = gen_value(rng, kinds)
    if rng.random() < 0.3:
        # siblings whose number starts with the decimal digits of a root's last arc
        # (1.3.9 vs 1.3.90 / 1.3.91.x): outside the root, but a string-prefix match
        r = rng.choice(roots)
        for d in rng.sample(range(10), 2):
            cand = r[:-1] + (r[-1] * 10 + d,) + gen_suffix(rng)
            if not any(is_prefix(x, cand) for x in roots):
                db[cand] = gen_value(rng, kinds)
    if rng.random() < 0.5:
        # something after everything
        db[(1, 3) + (2**32 - 1, 1)] = gen_value(rng, kinds)
        db[(2, 5, 1)] = gen_value(rng, kinds)
    # never place instances that are *prefixes* of a root other than the root
    return db


def truth_below(db, roots):
    return {k: v for k, v in db.items() if any(strictly_below(k, r) for r in roots)}


def gen_table(rng, max_cols=6, max_rows=8):
    """
    A conceptual table: returns (table_oid, entry_oid, cells, db) where cells
    maps (column, index_tuple) -> value.
    """
    table = (1, 3, 6, 1, 2, 1) + tuple(rng.randint(1, 200) for _ in range(rng.randint(1, 2))) + (rng.randint(1, 30),)
    entry = table + (1,)
    ncols = rng.randint(1, max_cols)
    cols = sorted(rng.sample(range(1, 40), ncols))
    nrows = rng.choice((0, 1, 1, 2, 3, 5, max_rows))
    idx_len = rng.randint(1, 4)
    rows = set()
    guard = 0
    while len(rows) < nrows and guard < 100:
        guard += 1
        rows.add(tuple(rng.choice(SUBID_POOL) if rng.random() < 0.4 else rng.randint(0, 9) for _ in range(idx_len)))
    cells = {}
    sparse = rng.random() < 0.5
    for col in cols:
        for row in rows:
            if sparse and rng.random() < 0.3:
                continue
            cells[(col, row)] = gen_value(rng)
    db = {entry + (c,) + r: v for (c, r), v in cells.items()}
    # neighbours directly before and after the table
    if rng.random() < 0.8:
        db[table[:-1] + (table[-1] - 1, 7)] = ("int", 111) if table[-1] > 0 else ("int", 0)
    if rng.random() < 0.8:
        db[table[:-1] + (table[-1] + 1, 1, 1, 1)] = ("int", 222)
    if rng.random() < 0.5:
        # a later sibling table whose number starts with this table's decimal digits
        # (X.2 vs X.21), holding cells with the SAME column/row indexes, and a short
        # scalar X.20.0: all outside the table
        sib = table[:-1] + (table[-1] * 10 + rng.randint(1, 9),)
        for (c, r) in list(cells)[:6]:
            db[sib + (1, c) + r] = ("int", 333)
        db[table[:-1] + (table[-1] * 10, 0)] = ("int", 444)
    return table, entry, cells, db


def colliding_oid_pairs(prefix, bits=32, columns=(1, 2), limit=250000, want=3):
    """
    Pairs of instance OIDs ``prefix.col.idx`` whose dotted-string hashes - under THIS
    interpreter's hash seed - agree in their low ``bits`` bits.  A set or cache that keeps
    a truncated fingerprint instead of the OID takes the second for the first.
    Returns a list of (oid_a, oid_b) tuples (possibly empty).
    """
    mask = (1 << bits) - 1
    head = ".".join(str(a) for a in prefix)
    seen = {}
    out = []
    for col in columns:
        for idx in range(1, limit):
            key = hash("%s.%d.%d" % (head, col, idx)) & mask
            other = seen.get(key)
            if other is not None:
                out.append((prefix + other, prefix + (col, idx)))
                if len(out) >= want:
                    return out
            else:
                seen[key] = (col, idx)
    return out


def colliding_oid_pairs_fn(prefix, fn, want=2, limit=400000):
    """Like colliding_oid_pairs, for an arbitrary 32-bit fingerprint ``fn(dotted string)``
    (zlib.crc32, zlib.adler32, ...), over six-component (MAC-address-like) indexes
    ``prefix.1.a.b.c.d.e.f`` drawn from a fixed pseudo-random sequence."""
    head = ".".join(str(a) for a in prefix)
    seen = {}
    out = []
    x = 0x2545F491
    for _ in range(limit):
        idx = []
        for _j in range(6):
            x = (x * 1103515245 + 12345) & 0x7FFFFFFF
            idx.append((x >> 16) & 0xFF)
        idx = tuple(idx)
        key = fn(("%s.1.%s" % (head, ".".join(map(str, idx)))).encode("ascii")) & 0xFFFFFFFF
        other = seen.get(key)
        if other is not None and other != idx:
            out.append((prefix + (1,) + other, prefix + (1,) + idx))
            if len(out) >= want:
                return out
        else:
            seen[key] = idx
    return out
