"""Regenerate /verif/MANIFEST.json from the table below (python -m vf.mkmanifest)."""

import json
import os

HERE = os.path.dirname(os.path.dirname(os.path.abspath(__file__)))

TRUST = (
    "Trusted base: the independent codec/agent in vf/ber.py and vf/agent.py (self-checked on "
    "RFC 3414 A.3 and RFC 2202 vectors at every start; failure => inconclusive), CPython, and "
    "that the public seams (Client(sender=), plug-in namespace, event loop, time.time) are the "
    "only way out of the library. Verdict = held on the executions observed, not a proof."
)

CHECKS = {
    "C01": dict(
        cat="exploration",
        technique="runtime monitoring: async-iteration boundary monitor vs reference-agent ground truth",
        text="Generated databases x disjoint root lists in every permutation x v2c/v3 levels, walked through the real Client/PyWrapper against a reference agent behind the sender seam; the monitor compares the yielded multiset, values, order and request count with the database ground truth. Exploration is the right level: the input space (databases x root lists) is unbounded and the oracle is exact per execution.",
        ref="DESIGN.md 4/C01",
    ),
    "C02": dict(
        cat="exploration",
        technique="runtime monitoring: bulk-walk results vs database ground truth and vs GETNEXT walk on an identical agent",
        text="C01's generator crossed with bulk sizes and all conformant GETBULK truncation policies of the reference agent; oracle is ground truth plus agreement with multiwalk, wire features recorded per case.",
        ref="DESIGN.md 4/C02",
    ),
    "C03": dict(
        cat="fault_enumeration",
        technique="runtime monitoring: seam request-log monitor under exhaustively enumerated misbehaving agents",
        text="The agent is the statement's model (functions requested-OID x repetition -> OID|endOfMibView); all functions for |U|<=3 (quick) / <=4 (thorough) are enumerated, larger and repetition-dependent ones sampled; non-termination is turned into a finite event by a request budget equal to the bound the property names, re-requests are read off the log.",
        ref="DESIGN.md 4/C03",
    ),
    "C04": dict(
        cat="exploration",
        technique="runtime monitoring: API results vs reference semantics on the agent database and vs the bindings recorded on the wire",
        text="Random databases with every value type, OID lists with duplicates/absent/end-of-view objects, all operations and all seven security levels; the monitor compares each result with the database semantics and with the agent's wire bindings (independently decoded); an injected-fault class adds/drops a binding or oversizes a GETBULK answer inside otherwise authentic responses and requires SnmpError.",
        ref="DESIGN.md 4/C04",
    ),
    "C05": dict(
        cat="exploration",
        technique="runtime monitoring: every datagram at the sender seam decoded by an independent strict BER/SNMP decoder and compared with the call's intent",
        text="All operations with generated OIDs (2..128 arcs, sub-identifiers to 2^32-1), SET values of every type at byte boundaries, communities 0..300, context names/engine ids, request ids swept through the clock and the id source, on v1/v2c/five v3 levels (privacy undone with the independently localised key). The request-id is decided behaviourally (echo accepted, id+1 refused). Two x690 OID-encoding defects are listed as known findings keyed by the observed wire deviation.",
        ref="DESIGN.md 4/C05",
    ),
    "C06": dict(
        cat="exploration",
        technique="runtime monitoring: delivered values vs independent decoding of the same response bytes; re-encodings re-read by the independent decoder",
        text="Responses are produced by the independent encoder in every definite length form chosen per nesting level, for every value type over its range, lists of 0..200, on seven levels; the monitor compares what Client.multiget delivers with what vf.ber reads from the same bytes and checks that re-encoded Message/ScopedPDU/USM parameters/PDU carry the same content.",
        ref="DESIGN.md 4/C06",
    ),
    "C07": dict(
        cat="exploration",
        technique="runtime monitoring: seam log of (request-id sent, request-id answered) vs outcome under a clock that advances on every read",
        text="Every read of time.time advances by a drawn increment so second boundaries fall between any two reads; echoing agent must be accepted for all operations and levels (incl. discovery); request-id perturbations (also on error responses), discovery message-id perturbations and community/version faults must be refused with the documented exception and no data.",
        ref="DESIGN.md 4/C07",
    ),
    "C08": dict(
        cat="exploration",
        technique="runtime monitoring: exception class/offending-OID monitor over the full error-status x error-index x operation x level matrix",
        text="The agent's answer is replaced at PDU level by an error response (inside authentic/encrypted v3 messages); the whole matrix of statuses (1..18, undefined, negative), indexes (0..len+3, negative, huge), list lengths (0..5) and operations (incl. first/later request of walks) is run; thorough runs it completely on all seven levels.",
        ref="DESIGN.md 4/C08",
    ),
    "C09": dict(
        cat="fault_enumeration",
        technique="runtime monitoring: man-in-the-middle fault enumeration (every single-bit flip, flag clearing, structural forgeries) with an accept/refuse oracle against the authentic result",
        text="Per authentic response (operations x contents x MD5/SHA-1 x authNoPriv/authPriv) every single-bit flip, every flip combined with cleared auth (and auth+priv) flags, and ~40 structural forgeries built without the victim's keys are delivered to the real client under the step budget; the outcome must be an exception or the authentic result. The quick corpus (8 responses, ~26 000 trials) and the thorough corpus (60 responses) are enumerated completely.",
        ref="DESIGN.md 4/C09",
    ),
    "C10": dict(
        cat="exploration",
        technique="runtime monitoring: the independent RFC 3414 agent's verdict counters and parsed request fields, plus client acceptance of its authentic responses, over password/engine-id/length sweeps",
        text="Every request of MD5/SHA-1 x authNoPriv/authPriv users must be verified by the independent agent (digest over the datagram as sent, flags = level|reportable, discovered engine id/boots/time, user name; all usmStats counters clean) and every authentic minimal-BER response must be accepted and decoded correctly. Swept: passwords of length 1..300 (thorough: every length), engine ids 5..32, boots/time, and paddings such that message, scoped-PDU and PDU content lengths each take EVERY value 100..300 in both directions (coverage measured; a gap makes the run inconclusive).",
        ref="DESIGN.md 4/C10",
    ),
    "C11": dict(
        cat="exploration",
        technique="runtime monitoring: recording privacy plug-ins supplied through the plug-in namespace, cross-checked against every datagram at the seam",
        text="Harness plug-ins (keyed stream with 0/8/16-octet salts, length-changing framing) record every encrypt/decrypt call; for each datagram the monitor checks that msgData is exactly the plug-in's ciphertext for this call, the salt travels as privacy parameters, the key equals the independent localisation with the user's auth hash, boots/time match the datagram, the plaintext is the intended scoped PDU, and no 8-octet plaintext window or SET marker is visible on the wire; responses are decrypted with the message's own parameters.",
        ref="DESIGN.md 4/C11",
    ),
    "C12": dict(
        cat="exploration",
        technique="runtime monitoring: operation histories on one client under a virtual clock shared with the reference agent (time advances, reboots), agent time-window verdicts as monitor",
        text="Random histories of 3..30 steps (operations, clock advances from 1 s to 3 days, agent reboots) per security level; every operation must succeed with the database truth, the first datagram must be a well-formed discovery probe, the discovered engine id must be used, bad discovery replies refused, and the agent's notInTimeWindow verdicts never exceed the number of reboots. 'Eventually' is restated as bounded progress over generated histories.",
        ref="DESIGN.md 4/C12",
    ),
    "C13": dict(
        cat="fault_enumeration",
        technique="runtime monitoring: virtual-time event loop with recording fake datagram endpoints (all outcome sequences enumerated) plus real loopback sockets with fd accounting",
        text="send_udp runs on a real SelectorEventLoop whose selector advances a virtual clock; every sequence of per-attempt outcomes {reply, no reply, late reply, two replies, ICMP error, connection lost} for retries 1..4 x 3 timeouts (4 662 scenarios; thorough retries 1..5) plus caller cancellation is executed and the recorded transport events are judged (send count, identical payload, exact virtual timing, first reply returned byte for byte, Timeout at retries*timeout, every transport closed at quiescence). Real loopback cases (scripted peer, closed port => real ICMP) are judged on counts: peer datagrams, /proc/self/fd delta, ResourceWarnings.",
        ref="DESIGN.md 4/C13",
        note="Trusted base: vf/vloop.py models asyncio's selector datagram transport closing semantics (no delivery after close/abort, connection_lost via call_soon); the real-socket part checks the same leak on the real transport. CPython asyncio itself is trusted. Verdict = held on the executions observed.",
    ),
    "C14": dict(
        cat="exploration",
        technique="runtime monitoring: controlled scheduler at the sender seam (requests parked, answered in enumerated/sampled orders), results compared with solo runs",
        text="Sets of 2..6 concurrent operations on a shared client (v2c, v3 authPriv primed and fresh) or two v3 clients; every request is parked and the answer order is enumerated depth-first by re-execution (complete for small sets, sampled beyond), which covers exactly the interleavings a cooperative asyncio program can have; the client clock advances on every read so request ids differ. Each result must equal the solo result; agent counters, user names and event-loop hygiene are monitored.",
        ref="DESIGN.md 4/C14",
    ),
    "C15": dict(
        cat="exploration",
        technique="runtime monitoring: recursive exact-type walk over PyWrapper results + equality with pythonised raw results",
        text="All eleven wrapper operations against generated databases holding every value type and multi-index tables; every returned object is walked recursively (dict keys included) and compared with the element-wise pythonisation of the raw client's result on an identical agent.",
        ref="DESIGN.md 4/C15",
    ),
    "C17": dict(
        cat="exploration",
        technique="runtime monitoring: dense sweep of public constructors/converters with record-only contracts and an independent codec",
        text="Exhaustive TimeTicks<->timedelta round trip over a dense prefix (2*10^6 quick, 2^26 thorough) plus boundaries and samples to 2^32-1; Counter/Counter64 over integers far outside the range; unsigned decoding from 1..9-octet contents; IpAddress; encode/decode through x690 and the independent codec.",
        ref="DESIGN.md 4/C17",
    ),
    "C18": dict(
        cat="exploration",
        technique="runtime monitoring: seam monitor of sender arguments and datagram headers against a reference stack-of-configurations model over nested histories",
        text="Random properly nested histories (depth <= 4) of configure / reconfigure enter / exit (normal, exceptional) / request / unknown setting over timeout, retries, credentials (three families, six identities) and context; every sender call and datagram must match the model's current configuration and client.config must equal the restored snapshot after each exit.",
        ref="DESIGN.md 4/C18",
    ),
    "C16": dict(
        cat="exploration",
        technique="runtime monitoring: table()/bulktable() results vs tables built in the reference agent's database",
        text="Random conceptual tables (sparse, multi-component indexes, neighbours) fetched through all four table APIs and bulk sizes; rows compared cell by cell with the database and between variants.",
        ref="DESIGN.md 4/C16",
    ),
}

CHECKS["C19"] = dict(
    cat="exploration",
    technique="runtime monitoring: real loopback datagrams into a listener registered through the public API; callback and loop-exception events judged against what was sent",
    text="Datagram sequences mixing valid SNMPv2c traps (payload bindings of every type, built by the independent encoder), foreign-community traps, truncated traps and garbage, from four 127.0.0.x sources, one at a time; every valid matching trap must reach the callback exactly once, in order, with Trap.source = sender address and the bindings sent (TrapInfo view pythonic); invalid datagrams never delivered and never stop later deliveries. A missing delivery is replayed once before it becomes a verdict.",
    ref="DESIGN.md 4/C19",
    note="Trusted base: vf/ber.py encoder (self-checked), the kernel's loopback UDP (one small datagram in flight at a time), CPython asyncio. Verdict = held on the executions observed.",
)
CHECKS["C20"] = dict(
    cat="fault_enumeration",
    technique="runtime monitoring: logical step monitor (sys.monitoring) + tracemalloc around one public call per mutated datagram, with a follow-up valid request as usability monitor",
    text="Per seed (valid v1/v2c/v3 responses at every level, reports, discovery replies, a trap) every TLV-header octet substitution by 11 values, every truncation and every single-bit flip (quick: every 3rd bit, round-robin over the seeds under a time cap; thorough: everything) plus nesting bombs/random strings up to the UDP maximum, for v3 both before authentication and after it (re-signed / re-encrypted with the real keys). Verdict on logical counts against fixed budgets (steps <= 40000+100*len, heap <= 12 MiB+400*len) that valid small and large traffic is also held to; the same client must serve a valid request afterwards. The x690 indefinite-length spin is a known finding classified by an observed non-advancing TLV slice.",
    ref="DESIGN.md 4/C20",
)

NOT_YET = {}
ALL = ["C%02d" % i for i in range(1, 21)]


def main():
    checks = []
    for pid in ALL:
        if pid not in CHECKS:
            continue
        c = CHECKS[pid]
        checks.append(
            {
                "property_id": pid,
                "quick_cmd": "VERIF_TIER=quick /venv/bin/python -m vf.check %s" % pid,
                "thorough_cmd": "VERIF_TIER=thorough /venv/bin/python -m vf.check %s" % pid,
                "evidence_file": "/verif/evidence/%s.json" % pid,
                "replay_cmd_template": "/venv/bin/python -m vf.check %s --replay {path}" % pid,
                "engine": "vf",
                "level_claimed": {"category": c["cat"], "text": c["text"], "design_ref": c["ref"]},
                "level_note": c.get("note", TRUST),
                "technique": c["technique"],
            }
        )
    na = []
    for pid in ALL:
        if pid in CHECKS:
            continue
        na.append(
            {
                "property_id": pid,
                "reason": NOT_YET.get(pid, "check not built yet (runtime monitor planned, see DESIGN.md section 4); not claimed until it runs clean"),
            }
        )
    manifest = {
        "version": 1,
        "setup_cmd": "mkdir -p /verif/evidence /verif/replays",
        "hooks": {
            "guard": "PURESNMP_VERIF",
            "enable": "no source hooks exist: checks put $VERIF_REPO/src (default /repo/src) first on sys.path and attach all instrumentation from the harness (sender seam, plug-in namespace, sys.monitoring, audit hooks, time.time)",
            "baseline_off_cmd": "cd /repo && /venv/bin/python -m pytest -ra -q -p no:cacheprovider --timeout=900 --continue-on-collection-errors",
            "source_commits": [],
            "add_only": True,
        },
        "engines": [
            {
                "name": "vf",
                "path": "/verif/vf",
                "serves_properties": sorted(CHECKS),
                "kind_free_text": "runtime monitoring: real puresnmp code driven by generated/hostile workloads against an independent reference agent, with monitors at the public seams",
            }
        ],
        "checks": checks,
        "not_applicable": na,
        "notes": "All checks: cwd=/verif, exit 0 held / 1 VIOLATION / 2 INCONCLUSIVE; VERIF_SEED and VERIF_TIER honoured; VERIF_REPO points the checks at another checkout (used for seeded mutants). Genuine defects repaired in /repo are listed in known_findings.json as fixed entries.",
    }
    with open(os.path.join(HERE, "MANIFEST.json"), "w") as fh:
        json.dump(manifest, fh, indent=1)
    print("wrote MANIFEST.json: %d checks, %d not_applicable" % (len(checks), len(na)))


if __name__ == "__main__":
    main()
