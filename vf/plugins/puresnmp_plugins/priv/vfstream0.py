"""Harness privacy plug-in 'vfstream0' (see vf/privxf.py); records every call."""
from vf import privxf

IDENTIFIER = "vfstream0"
IANA_ID = -1000


def encrypt_data(localised_key, engine_id, engine_boots, engine_time, data):
    return privxf.plugin_encrypt(
        IDENTIFIER, localised_key, engine_id, engine_boots, engine_time, data
    )


def decrypt_data(localised_key, engine_id, engine_boots, engine_time, salt, data):
    return privxf.plugin_decrypt(
        IDENTIFIER, localised_key, engine_id, engine_boots, engine_time, salt, data
    )
