"""
The rig's privacy transforms.  The only thing property C11 assumes about a
privacy plug-in is decrypt(encrypt(x)) == x; these are exactly invertible
keyed transforms, shared by the harness plug-ins (client side) and the
reference agent.

Every variant is a function pair over (key, engine_id, boots, time, salt).
"""

import hashlib

#: every call made by puresnmp into a harness plug-in is appended here
CALLS = []

_COUNTER = [0]


def reset():
    CALLS.clear()
    _COUNTER[0] = 0


def _stream(key, engine_id, boots, time_, salt, n):
    out = bytearray()
    ctr = 0
    seed = (
        bytes(key)
        + b"|"
        + bytes(engine_id)
        + b"|%d|%d|" % (boots, time_)
        + bytes(salt)
    )
    while len(out) < n:
        out += hashlib.sha256(seed + ctr.to_bytes(4, "big")).digest()
        ctr += 1
    return bytes(out[:n])


def _xor(data, stream):
    return bytes(a ^ b for a, b in zip(data, stream))


def next_salt(size):
    _COUNTER[0] += 1
    if size == 0:
        return b""
    return hashlib.sha256(b"salt%d" % _COUNTER[0]).digest()[:size]


VARIANTS = {
    # name: (salt size, framing)
    "vfstream8": (8, False),
    "vfstream0": (0, False),
    "vfstream16": (16, False),
    "vfframe": (8, True),
}


def encrypt(variant, key, engine_id, boots, time_, data, salt=None):
    size, framing = VARIANTS[variant]
    if salt is None:
        salt = next_salt(size)
    body = bytes(data)
    if framing:
        # length-changing but exactly invertible framing
        body = len(body).to_bytes(4, "big") + body + b"\xa5" * (7 - len(body) % 7)
    cipher = _xor(body, _stream(key, engine_id, boots, time_, salt, len(body)))
    return cipher, salt


def decrypt(variant, key, engine_id, boots, time_, salt, data):
    size, framing = VARIANTS[variant]
    body = _xor(bytes(data), _stream(key, engine_id, boots, time_, salt, len(data)))
    if framing:
        if len(body) < 4:
            raise ValueError("framing too short")
        n = int.from_bytes(body[:4], "big")
        if n > len(body) - 4:
            raise ValueError("framing length out of range")
        body = body[4 : 4 + n]
    return body


def plugin_encrypt(variant, localised_key, engine_id, engine_boots, engine_time, data):
    cipher, salt = encrypt(
        variant, localised_key, engine_id, engine_boots, engine_time, data
    )
    CALLS.append(
        {
            "op": "encrypt",
            "variant": variant,
            "key": bytes(localised_key),
            "engine_id": bytes(engine_id),
            "boots": engine_boots,
            "time": engine_time,
            "plaintext": bytes(data),
            "ciphertext": cipher,
            "salt": salt,
        }
    )
    return cipher, salt


def plugin_decrypt(
    variant, localised_key, engine_id, engine_boots, engine_time, salt, data
):
    rec = {
        "op": "decrypt",
        "variant": variant,
        "key": bytes(localised_key),
        "engine_id": bytes(engine_id),
        "boots": engine_boots,
        "time": engine_time,
        "salt": bytes(salt),
        "ciphertext": bytes(data),
    }
    CALLS.append(rec)
    plain = decrypt(
        variant, localised_key, engine_id, engine_boots, engine_time, salt, data
    )
    rec["plaintext"] = plain
    return plain
