"""
Shared rig: recording sender seam, loop-free coroutine driver, world builder
(client + reference agent per security level), value conversion between
puresnmp objects and the independent codec's tuples.
"""

from . import env  # noqa: F401  (must come first: path + clock)

import ipaddress
import random

import puresnmp
from puresnmp import V1, V2C, V3, Auth, Client, Priv, PyWrapper
from puresnmp.exc import Timeout
from puresnmp.pdu import EndOfMibView, NoSuchInstance, NoSuchObject
from puresnmp.types import Counter, Counter64, Gauge, IpAddress, Opaque, TimeTicks
from x690.types import Integer, Null, ObjectIdentifier, OctetString

from . import agent as agent_mod
from . import ber, privxf

LEVELS = ("v1", "v2c", "v3-noauth", "v3-md5", "v3-sha1", "v3-md5-priv", "v3-sha1-priv")
V2_LEVELS = LEVELS[1:]
V3_LEVELS = LEVELS[2:]
AUTH_LEVELS = LEVELS[3:]
# weighted rotation: privacy levels cost ~10 ms per exchange (puresnmp
# re-derives the 1 MiB key for every message), so they come up less often
LEVEL_CYCLE_V2 = (
    "v2c", "v3-noauth", "v2c", "v3-md5", "v2c", "v3-sha1", "v2c", "v3-md5-priv",
    "v2c", "v3-noauth", "v2c", "v3-sha1", "v2c", "v3-md5", "v2c", "v3-sha1-priv",
)
LEVEL_CYCLE_ALL = ("v1",) + LEVEL_CYCLE_V2


class BudgetExceeded(BaseException):
    """The per-operation request budget at the seam was exhausted."""


class NoReply(Exception):
    pass


class Seam:
    """
    Recording sender.  ``responder(bytes) -> bytes | None`` is synchronous;
    None means "no reply" and surfaces as puresnmp.exc.Timeout, which is what
    the real UDP sender raises.
    """

    def __init__(self, responder, budget=None):
        self.responder = responder
        self.events = []
        self.budget = budget
        self.calls = 0
        self.op_id = 0

    def reset(self, budget=None):
        self.events = []
        self.calls = 0
        self.budget = budget

    async def __call__(self, endpoint, packet, timeout=None, retries=None, loop=None):
        self.calls += 1
        if self.budget is not None and self.calls > self.budget:
            self.events.append({"kind": "budget", "seq": len(self.events)})
            raise BudgetExceeded(self.calls)
        ev = {
            "kind": "call",
            "seq": len(self.events),
            "op": self.op_id,
            "request": bytes(packet),
            "timeout": timeout,
            "retries": retries,
            "endpoint": (str(endpoint.ip), endpoint.port),
        }
        self.events.append(ev)
        try:
            resp = self.responder(bytes(packet))
        except BaseException as exc:
            self.events.append(
                {"kind": "raise", "seq": len(self.events), "exc": repr(exc)}
            )
            raise
        if resp is None:
            self.events.append({"kind": "noreply", "seq": len(self.events)})
            raise Timeout("no reply (seam)")
        self.events.append(
            {"kind": "return", "seq": len(self.events), "response": bytes(resp)}
        )
        return resp

    @property
    def requests(self):
        return [e["request"] for e in self.events if e["kind"] == "call"]

    @property
    def responses(self):
        return [e["response"] for e in self.events if e["kind"] == "return"]


class WouldBlock(Exception):
    """The driven coroutine tried to wait on real I/O."""


_LOOP = [None]


def _loop():
    import asyncio

    if _LOOP[0] is None or _LOOP[0].is_closed():
        _LOOP[0] = asyncio.new_event_loop()
    return _LOOP[0]


def _run(coro):
    """
    Run a coroutine on the harness's own event loop until it completes.  The
    seam's sender answers synchronously, so a client operation normally
    finishes without ever blocking; code under test may nevertheless use
    futures, locks or tasks of a RUNNING loop, which this supports.  When the
    coroutine is not finished and the loop has nothing left to run, it waits
    on something real: WouldBlock.
    """
    import asyncio

    loop = _loop()
    asyncio.set_event_loop(loop)
    task = loop.create_task(coro)
    try:
        for _ in range(100000):
            loop.call_soon(loop.stop)
            loop.run_forever()
            if task.done():
                return task.result()
            if not loop._ready and not loop._scheduled:
                break
        task.cancel()
        try:
            loop.call_soon(loop.stop)
            loop.run_forever()
        except BaseException:  # noqa: BLE001
            pass
        raise WouldBlock("coroutine suspended: it waited on something real")
    except BaseException:
        if not task.done():
            task.cancel()
            try:
                loop.call_soon(loop.stop)
                loop.run_forever()
            except BaseException:  # noqa: BLE001
                pass
        raise


def drive(coro):
    """Run a client coroutine to completion (see _run)."""
    return _run(coro)


def drive_agen(agen, limit=None):
    """Collect an async generator."""

    async def collect():
        out = []
        try:
            async for item in agen:
                out.append(item)
                if limit is not None and len(out) > limit:
                    raise BudgetExceeded("yield limit")
        finally:
            try:
                await agen.aclose()
            except BaseException:  # noqa: BLE001
                pass
        return out

    return _run(collect())


def outcome(fn):
    """Run fn(); return ("ok", value) or ("exc", exception)."""
    try:
        return ("ok", fn())
    except BudgetExceeded:
        raise
    except Exception as exc:  # noqa: BLE001 - the outcome IS the exception
        return ("exc", exc)


# ---------------------------------------------------------------------------
# value conversion
# ---------------------------------------------------------------------------


def oid_t(oid):
    """ObjectIdentifier | str | tuple -> tuple"""
    if isinstance(oid, tuple):
        return oid
    if isinstance(oid, ObjectIdentifier):
        return tuple(oid.nodes)
    s = str(oid).strip(".")
    return tuple(int(p) for p in s.split(".")) if s else ()


def oid_s(t):
    return ".".join(str(a) for a in t)


def OID(t):
    return ObjectIdentifier(oid_s(oid_t(t)))


_EXACT = {
    Integer: "int",
    OctetString: "str",
    Null: "null",
    ObjectIdentifier: "oid",
    IpAddress: "ip",
    Counter: "c32",
    Gauge: "g32",
    TimeTicks: "tt",
    Opaque: "opaque",
    Counter64: "c64",
    NoSuchObject: "nso",
    NoSuchInstance: "nsi",
    EndOfMibView: "eomv",
}


def to_tuple(value):
    """puresnmp/x690 value object -> (kind, value); exact-type match."""
    kind = _EXACT.get(type(value))
    if kind is None:
        return ("?" + type(value).__name__, repr(value))
    if kind in ("int", "c32", "g32", "tt", "c64"):
        return (kind, value.value)
    if kind in ("str", "opaque"):
        return (kind, bytes(value.value))
    if kind in ("null", "nso", "nsi", "eomv"):
        return (kind, None)
    if kind == "oid":
        return (kind, tuple(value.nodes))
    if kind == "ip":
        return (kind, value.value.packed)
    raise AssertionError(kind)


def from_tuple(val):
    """(kind, value) -> puresnmp/x690 value object (for SET requests)."""
    kind, v = val
    if kind == "int":
        return Integer(v)
    if kind == "str":
        return OctetString(v)
    if kind == "null":
        return Null()
    if kind == "oid":
        return OID(v)
    if kind == "ip":
        return IpAddress(ipaddress.IPv4Address(v))
    if kind == "c32":
        return Counter(v)
    if kind == "g32":
        return Gauge(v)
    if kind == "tt":
        return TimeTicks(v)
    if kind == "opaque":
        return Opaque(v)
    if kind == "c64":
        return Counter64(v)
    raise ValueError(kind)


def pythonized(val):
    """What the pythonic wrapper should hand out for (kind, value)."""
    import datetime

    kind, v = val
    if kind in ("int", "c32", "g32", "c64"):
        return v
    if kind in ("str", "opaque"):
        return v
    if kind in ("null", "nso", "nsi", "eomv"):
        return None
    if kind == "oid":
        return oid_s(v)
    if kind == "ip":
        return ipaddress.IPv4Address(v)
    if kind == "tt":
        return datetime.timedelta(milliseconds=10 * v)
    raise ValueError(kind)


def jsonable(x):
    """Make a case description JSON-serialisable."""
    if isinstance(x, (bytes, bytearray)):
        return "hex:" + bytes(x).hex()
    if isinstance(x, dict):
        return {str(k) if not isinstance(k, str) else k: jsonable(v) for k, v in x.items()}
    if isinstance(x, (list, tuple, set, frozenset)):
        return [jsonable(v) for v in x]
    if isinstance(x, (int, float, str, bool)) or x is None:
        return x
    return repr(x)


# ---------------------------------------------------------------------------
# world builder
# ---------------------------------------------------------------------------

USER = "vfuser"
AUTH_PW = b"authpass-1234"
PRIV_PW = b"privpass-5678"


def credentials_for(level, community="public", user=USER, auth_pw=AUTH_PW,
                    priv_pw=PRIV_PW, variant="vfstream8"):
    if level == "v1":
        return V1(community)
    if level == "v2c":
        return V2C(community)
    if level == "v3-noauth":
        return V3(user)
    hashname = "md5" if "md5" in level else "sha1"
    auth = Auth(auth_pw, hashname)
    if level.endswith("-priv"):
        return V3(user, auth, Priv(priv_pw, variant))
    return V3(user, auth)


def agent_user_for(level, user=USER, auth_pw=AUTH_PW, priv_pw=PRIV_PW,
                   variant="vfstream8"):
    if not level.startswith("v3"):
        return None
    name = user.encode("ascii")
    if level == "v3-noauth":
        return agent_mod.User(name)
    hashname = "md5" if "md5" in level else "sha1"
    if level.endswith("-priv"):
        return agent_mod.User(name, (hashname, auth_pw), (variant, priv_pw))
    return agent_mod.User(name, (hashname, auth_pw))


def lenient():
    """The lenient walk mode as a caller may well pass it: a string EQUAL to "warn" that
    is not the interned constant (read from a config file, lower-cased, decoded ...)."""
    return "".join(("wa", "rn"))


def initial_credentials(via, community="public", cred_kwargs=None):
    """Credentials a client starts its life with before it is switched to the intended
    ones.  via = (how, level[, "same"]): with "same" everything the two families can
    share IS shared (the same community string for v1/v2c, the same user and passwords
    for the v3 levels), so that the two configurations only differ in their family."""
    if len(via) > 2 and via[2] == "same":
        return credentials_for(via[1], community=community, **dict(cred_kwargs or {}))
    return credentials_for(via[1], community="initial")


class World:
    """A client wired through a recording seam to a fresh reference agent."""

    def __init__(self, level, db, wrap=None, community="public", agent_kwargs=None,
                 client_kwargs=None, cred_kwargs=None, clock=None, extra_users=(), via=None, creds=None):
        """via: (how, initial level) - the client is created with OTHER credentials and
        reaches the intended ones through configure() (how == "configure")."""
        cred_kwargs = dict(cred_kwargs or {})
        self.level = level
        # Address reuse: every fourth world first lets the collector free what earlier
        # worlds left behind (a finished Client sits in a reference cycle), so that the
        # credentials / client / model objects created next are likely to land on the
        # addresses of dead ones - anything remembered under id(obj) turns stale.
        World._created = getattr(World, "_created", 0) + 1
        if World._created % 4 == 0:
            import gc

            gc.collect()
        # creds: a credentials OBJECT the caller already has (shared by the clients of
        # several devices); it must correspond to level / cred_kwargs
        self.creds = creds if creds is not None else credentials_for(level, community=community, **cred_kwargs)
        users = []
        u = agent_user_for(level, **cred_kwargs)
        if u is not None:
            users.append(u)
        users.extend(extra_users)
        kw = dict(agent_kwargs or {})
        self.agent = agent_mod.Agent(
            db,
            community=community.encode("ascii"),
            users=users,
            clock=clock if clock is not None else env.CLOCK,
            **kw,
        )
        self.responder = self.agent.handle
        if wrap is not None:
            self.responder = wrap(self.agent)
        self.seam = Seam(self.responder)
        if via is not None:
            self.client = Client(
                "192.0.2.1", initial_credentials(via, community, cred_kwargs), sender=self.seam, **dict(client_kwargs or {})
            )
            self.client.configure(credentials=self.creds)
        else:
            self.client = Client(
                "192.0.2.1", self.creds, sender=self.seam, **dict(client_kwargs or {})
            )
        self.py = PyWrapper(self.client)

    def set_responder(self, responder):
        self.responder = responder
        self.seam.responder = responder

    def prime(self):
        """Perform discovery (v3) so later exchanges are 1:1 with operations."""
        if self.level.startswith("v3"):
            try:
                drive(self.client.get(OID((1, 3, 6, 1, 2, 1, 1, 1, 0))))
            except Exception:  # noqa: BLE001
                pass
            self.seam.reset()
            self.agent.requests.clear()


def rng_for(seed, prop, index):
    return random.Random("%s:%s:%s" % (seed, prop, index))
