"""
Thread stress with yield injection.

The library is asyncio code, but nothing stops an application from running one
event loop (and one Client) per OS thread, and the value types are plain
objects that any thread may convert.  Module-level or class-level state that
is updated in more than one step is then exposed to pre-emption between two
statements - invisible to any single-threaded or coroutine-interleaving
workload.

``run(jobs, ...)`` executes callables in several threads at once.  To make a
thread switch between two statements of the code under test likely (instead
of once per 5 ms), a ``sys.monitoring`` LINE callback restricted to files below
the repository's ``src`` gives up the GIL (``time.sleep(0)``) at a pseudo-random
third of the statements, and the switch interval is lowered as well.

Each job is ``(callable, expected)``; the callable's result (or the exception
it raised) is compared with ``expected`` by ``==`` in the thread that ran it.
Returns a list of mismatches ``(thread, job index, got, expected)``.
"""

import sys
import threading
import time

from . import env

TOOL_ID = 2
_counter = [0]


def _line(code, lineno):
    if not code.co_filename.startswith(env.SRC):
        return sys.monitoring.DISABLE
    _counter[0] = (_counter[0] * 1103515245 + 12345) & 0x7FFFFFFF
    if _counter[0] % 3 == 0:
        time.sleep(0)
    return None


def run(jobs_per_thread, rounds=1, inject=True, start_together=True):
    """jobs_per_thread: list (one entry per thread) of lists of (callable, expected)."""
    mismatches = []
    lock = threading.Lock()
    barrier = threading.Barrier(len(jobs_per_thread)) if start_together else None
    stats = {"calls": 0}

    def worker(ti, jobs):
        if barrier is not None:
            try:
                barrier.wait(timeout=10)
            except threading.BrokenBarrierError:
                pass
        n = 0
        for _ in range(rounds):
            for ji, (fn, expected) in enumerate(jobs):
                try:
                    got = fn()
                except Exception as exc:  # noqa: BLE001 - an outcome like any other
                    got = ("raised", type(exc).__name__, str(exc)[:120])
                n += 1
                if got != expected:
                    with lock:
                        if len(mismatches) < 20:
                            mismatches.append((ti, ji, got, expected))
        with lock:
            stats["calls"] += n

    old_interval = sys.getswitchinterval()
    installed = False
    mon = getattr(sys, "monitoring", None)
    try:
        sys.setswitchinterval(1e-6)
        if inject and mon is not None:
            try:
                mon.use_tool_id(TOOL_ID, "vf-yield-injection")
                mon.register_callback(TOOL_ID, mon.events.LINE, _line)
                mon.set_events(TOOL_ID, mon.events.LINE)
                installed = True
            except ValueError:
                installed = False
        threads = [threading.Thread(target=worker, args=(i, jobs), daemon=True) for i, jobs in enumerate(jobs_per_thread)]
        for t in threads:
            t.start()
        for t in threads:
            t.join(timeout=120)
        hung = [t for t in threads if t.is_alive()]
    finally:
        if installed:
            mon.set_events(TOOL_ID, 0)
            mon.register_callback(TOOL_ID, mon.events.LINE, None)
            mon.free_tool_id(TOOL_ID)
            mon.restart_events()
        sys.setswitchinterval(old_interval)
    return mismatches, {"calls": stats["calls"], "threads": len(jobs_per_thread), "yield_injection": installed, "hung_threads": len(hung)}
