"""
Contracts on the public constructors / converters of puresnmp.types (C17).
Attached by C17's dense sweep and left attached during the C04/C06/C15
workloads so that organically produced values are checked as well.
"""

from . import env  # noqa: F401

import datetime
import ipaddress

from puresnmp import types as T
from x690.types import _SENTINEL_UNINITIALISED

from .contracts import attach

TICK = datetime.timedelta(milliseconds=10)


def _given(args, kwargs):
    if len(args) > 1:
        return args[1]
    return kwargs.get("value", None)


def counter_post(bits):
    mod = 1 << bits

    def post(_result, *args, **kwargs):
        self = args[0]
        given = _given(args, kwargs)
        if given is None or isinstance(given, _SENTINEL_UNINITIALISED) or not isinstance(given, int):
            return None
        want = max(given, 0) % mod
        got = self.value
        if got != want:
            return "%s(%d).value == %r, expected max(n,0) mod 2^%d == %d" % (type(self).__name__, given, got, bits, want)
        return None

    return post


def timeticks_init_post(_result, *args, **kwargs):
    self = args[0]
    given = _given(args, kwargs)
    if isinstance(given, datetime.timedelta):
        q, r = divmod(given, TICK)
        got = self.value
        if not r:
            if got != q:
                return "TimeTicks(%r).value == %r, expected exactly %d ticks" % (given, got, q)
        elif got not in (q, q + 1):
            return "TimeTicks(%r).value == %r, expected %d or %d" % (given, got, q, q + 1)
    elif isinstance(given, int) and not isinstance(given, bool):
        if self.value != given:
            return "TimeTicks(%d).value == %r" % (given, self.value)
    return None


def timeticks_pythonize_post(result, *args, **kwargs):
    self = args[0]
    v = self.value
    if v is None:
        return None
    want = v * TICK
    if result != want or type(result) is not datetime.timedelta:
        return "TimeTicks(%d).pythonize() == %r, expected %r" % (v, result, want)
    return None


def ip_decode_post(result, *args, **kwargs):
    data = args[0]
    slc = args[1] if len(args) > 1 else kwargs.get("slc", slice(None))
    raw = bytes(data[slc])
    if len(raw) == 4:
        want = ipaddress.IPv4Address(raw)
        if result != want or type(result) is not ipaddress.IPv4Address:
            return "IpAddress.decode_raw(%s) == %r, expected %r" % (raw.hex(), result, want)
    return None


def ip_encode_post(result, *args, **kwargs):
    self = args[0]
    v = self.value
    if isinstance(v, ipaddress.IPv4Address) and result != v.packed:
        return "IpAddress(%s).encode_raw() == %s" % (v, bytes(result).hex())
    return None


def attach_all():
    return [
        attach(T.Counter, "__init__", post=counter_post(32)),
        attach(T.Counter64, "__init__", post=counter_post(64)),
        attach(T.TimeTicks, "__init__", post=timeticks_init_post),
        attach(T.TimeTicks, "pythonize", post=timeticks_pythonize_post),
        attach(T.IpAddress, "decode_raw", post=ip_decode_post),
        attach(T.IpAddress, "encode_raw", post=ip_encode_post),
    ]


def report(R, contracts, decide=True):
    """Feed contract counters (and breaches) into a Run."""
    for c in contracts:
        key = "contract_%s.%s" % (getattr(c.owner, "__name__", c.owner), c.name)
        R.mon[key + "_evaluated"] += c.evaluations
        if not c.attached:
            R.notes[key] = "attached: false"
        for b in c.breaches:
            R.mon[key + "_breaches"] += 1
            if decide:
                mech = None
                if c.name == "__init__" and "TimeTicks(" in b["detail"] and "timedelta" in b["args"]:
                    mech = "timeticks-float-truncation"
                R.violation({"contract": b["contract"], "args": b["args"]}, b["detail"], mech)
        c.breaches = []
        c.evaluations = 0
