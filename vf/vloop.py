"""
Virtual-time event loop with recording fake datagram endpoints (C13a).

``VLoop`` is a real ``asyncio.SelectorEventLoop`` whose selector never blocks:
``select(timeout)`` advances a virtual clock by ``timeout`` and returns no
events, and ``loop.time()`` reads that clock.  Timers therefore fire at exact
virtual instants and nothing ever sleeps.

``create_datagram_endpoint`` returns a ``FakeDatagramTransport`` that follows
the closing semantics of asyncio's selector datagram transport:
``connection_made`` is scheduled with ``call_soon`` before the coroutine
returns; ``close()`` / ``abort()`` mark the transport closing and schedule
``connection_lost(None)`` with ``call_soon``; nothing is delivered to the
protocol after ``close()`` / ``abort()``.
"""

import asyncio
import selectors


class Deadlock(Exception):
    """The loop would block forever: nothing is scheduled."""


class VirtualSelector(selectors.SelectSelector):
    def __init__(self, clock):
        super().__init__()
        self.clock = clock

    def select(self, timeout=None):
        if timeout is None:
            raise Deadlock("event loop would block forever")
        if timeout > 0:
            self.clock[0] += timeout
        return []


class FakeDatagramTransport(asyncio.DatagramTransport):
    def __init__(self, loop, protocol, remote_addr, index, log, script):
        super().__init__()
        self.loop = loop
        self.protocol = protocol
        self.remote_addr = remote_addr
        self.index = index
        self.log = log
        self.script = script
        self.closing = False
        self.closed_how = None
        self.lost_called = False

    # --- transport API -------------------------------------------------------
    def get_extra_info(self, name, default=None):
        if name == "peername":
            return self.remote_addr
        if name == "sockname":
            return ("127.0.0.1", 40000 + self.index)
        return default

    def is_closing(self):
        return self.closing

    def sendto(self, data, addr=None):
        if self.closing:
            self.log.append({"ev": "send-after-close", "transport": self.index, "t": self.loop.time()})
            return
        self.log.append({"ev": "send", "transport": self.index, "t": self.loop.time(), "data": bytes(data)})
        self.script(self, bytes(data))

    def close(self):
        self._shutdown("close")

    def abort(self):
        self._shutdown("abort")

    def _shutdown(self, how, exc=None):
        if self.closing:
            return
        self.closing = True
        self.closed_how = how
        self.log.append({"ev": how, "transport": self.index, "t": self.loop.time()})
        self.loop.call_soon(self._call_connection_lost, exc)

    def _call_connection_lost(self, exc):
        self.lost_called = True
        self.protocol.connection_lost(exc)

    # --- the network side (used by scripts) ---------------------------------
    def deliver(self, data, addr):
        if self.closing:
            self.log.append({"ev": "dropped-after-close", "transport": self.index, "t": self.loop.time()})
            return
        self.log.append({"ev": "deliver", "transport": self.index, "t": self.loop.time(), "data": bytes(data)})
        self.protocol.datagram_received(data, addr)

    def icmp(self, exc):
        if self.closing:
            return
        self.log.append({"ev": "icmp", "transport": self.index, "t": self.loop.time()})
        self.protocol.error_received(exc)

    def closed_externally(self):
        """The transport goes away WITHOUT an error while a reply is awaited (the loop is
        shutting the socket down, a wrapper closed it): connection_lost(None)."""
        if self.closing:
            return
        self.log.append({"ev": "closed-externally", "transport": self.index, "t": self.loop.time()})
        self.closing = True
        self.closed_how = "external"
        self.loop.call_soon(self._call_connection_lost, None)

    def fatal(self, exc):
        """The kernel reports a fatal error on the socket: asyncio force-closes."""
        if self.closing:
            return
        self.log.append({"ev": "fatal", "transport": self.index, "t": self.loop.time()})
        self.closing = True
        self.closed_how = "fatal"
        self.loop.call_soon(self._call_connection_lost, exc)


class VLoop(asyncio.SelectorEventLoop):
    def __init__(self, script_factory):
        self._vclock = [1000.0]
        super().__init__(VirtualSelector(self._vclock))
        self.transports = []
        self.log = []
        self.script_factory = script_factory
        self.create_failures = 0

    def time(self):
        return self._vclock[0]

    async def create_datagram_endpoint(self, protocol_factory, local_addr=None, remote_addr=None, **kwargs):
        if self.create_failures > 0:
            # the OS refuses to create/connect the socket (EACCES, EMFILE, ...)
            self.create_failures -= 1
            self.log.append({"ev": "create-failed", "transport": None, "t": self.time()})
            await asyncio.sleep(0)
            raise PermissionError(13, "Permission denied")
        protocol = protocol_factory()
        index = len(self.transports)
        transport = FakeDatagramTransport(self, protocol, remote_addr, index, self.log, self.script_factory(index))
        self.transports.append(transport)
        self.log.append({"ev": "open", "transport": index, "t": self.time(), "remote": remote_addr})
        waiter = self.create_future()
        self.call_soon(protocol.connection_made, transport)
        self.call_soon(lambda: waiter.done() or waiter.set_result(None))
        await waiter
        return transport, protocol
